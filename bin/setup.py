#!/usr/bin/env python3
"""MANIFEST.setup_cmd: offline sanity build of the framework (everything is rebuilt per check anyway)."""
import os, shutil, subprocess, sys, tempfile
ROOT = os.path.dirname(os.path.dirname(os.path.abspath(__file__)))
env = dict(os.environ, GOFLAGS="-mod=mod", GOPROXY="off", GOSUMDB="off", GOTOOLCHAIN="local")
tmp = tempfile.mkdtemp(prefix="verif.setup.")
try:
    if os.path.exists("/repo/go.sum"):
        shutil.copy("/repo/go.sum", os.path.join(ROOT, "harness", "go.sum"))
    ok = False
    for tags in (["-tags", "verif"], []):
        p = subprocess.run(["go", "build"] + tags + ["-o", os.path.join(tmp, "jmv"), "./jmv"], cwd=os.path.join(ROOT, "harness"), env=env)
        if p.returncode == 0:
            ok = True
            break
    if not ok:
        sys.exit(1)
    # all specification modules must parse
    bad = 0
    for f in sorted(os.listdir(os.path.join(ROOT, "spec"))):
        if f.endswith(".tla"):
            p = subprocess.run(["java", "-cp", "/opt/veriftools/tla/tla2tools.jar:/opt/veriftools/tla/CommunityModules-deps.jar",
                                "tla2sany.SANY", f], cwd=os.path.join(ROOT, "spec"), capture_output=True, text=True)
            if p.returncode != 0 or "*** Errors" in p.stdout or "Fatal errors" in p.stdout:
                print("SANY failed on", f, "\n", p.stdout[-1500:])
                bad += 1
    sys.exit(1 if bad else 0)
finally:
    shutil.rmtree(tmp, ignore_errors=True)
