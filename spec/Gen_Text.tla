----------------------------- MODULE Gen_Text -----------------------------
(* Generators at character level (C05, C14, C17): source texts as code points (negative = raw byte), with
   the verdict of the specification's compile pipeline (Text!CompileModel): compiles / is rejected (with
   the byte offset the specification predicts, compared as drift only) / unmodelled, and for accepted
   texts the allowed outcomes on a few documents.

   Mode "coarse": every string up to MaxLen over the coarse alphabet (one representative per character class)
   Mode "fine":   every string up to 2 characters over all 128 ASCII code points, boundary runes and raw bytes
   Mode "ident":  every fine character next to identifier characters (a?, ?a, a?b, _?1, a1?)
   Mode "nums":   every spelling of a number of 1..3 digits over 0, 1, 7, 8, 9 (leading zeros), optionally negative, in index / slice /
                  literal positions, on a 12-element array
   Mode "c14":    for every coarse string s of valid code points: the quoted identifier, the raw string, the
                  JSON literal and a multi-select key spelled from s, with the value the property demands *)
EXTENDS Text, Json, SequencesExt

CONSTANTS Mode, MaxLen, Shard, NShards, OutFile, Seed, Stride

CoarseQ == <<97, 110, 98, 49, 95, 32, 34, 39, 96, 92, 91, 93, 63, 124, 61, 38, 45, 46, 117, 1, 9, 127, 128, 233, 119070, 65533, 123, 58, -255, 40, 41, 64, 42, 44>>
FineQ == [i \in 1..128 |-> i - 1] \o <<128, 129, 255, 256, 2047, 2048, 65533, 65535, 65536, 1114111, -128, -192, -255, 65279>>     \* ... , U+FEFF (byte order mark)
AQ == IF Mode = "fine" THEN FineQ ELSE CoarseQ
NA == Len(AQ)
RECURSIVE PowN(_, _)
PowN(b, e) == IF e = 0 THEN 1 ELSE b * PowN(b, e - 1)
RECURSIVE CountUpTo(_)
CountUpTo(n) == IF n < 0 THEN 0 ELSE CountUpTo(n - 1) + PowN(NA, n)
RECURSIVE DigitsA(_, _)
DigitsA(n, len) == IF len = 0 THEN <<>> ELSE <<AQ[(n % NA) + 1]>> \o DigitsA(n \div NA, len - 1)
StringAt(j) == LET len == CHOOSE a \in 0..MaxLen : CountUpTo(a - 1) <= j /\ j < CountUpTo(a) IN DigitsA(j - CountUpTo(len - 1), len)
NStrings == CountUpTo(MaxLen)

cA == <<97>>
SearchDocs == <<Obj({<<cA, Obj({<<cA, IntV(1)>>, <<<<98>>, Arr(<<IntV(1), IntV(2)>>)>>})>>, <<<<98>>, Arr(<<Obj({<<cA, IntV(1)>>}), IntV(2), Arr(<<IntV(3)>>)>>)>>}),
                Arr(<<IntV(3), IntV(1), IntV(2)>>), Null>>

TextCaseD(i, text, docs) ==
  LET m == CompileModel(text) IN
  [k |-> "case", id |-> i, n |-> Len(text), srcs |-> <<text>>,
   compile |-> IF m[1] = "ok" THEN "ok" ELSE IF m[1] = "err" THEN "err" ELSE "any",
   errkind |-> IF m[1] = "err" THEN m[2] ELSE "", offset |-> IF m[1] = "err" THEN m[3] ELSE -1,
   allowed |-> IF m[1] = "ok" THEN [d \in 1..Len(docs) |-> Outcomes(m[2], docs[d])] ELSE <<>>]

(* Mode "nums": every spelling of a number with 1..3 digits over {0, 1, 7, 8, 9} (leading zeros, 08 / 09, -0), optionally negative,
   as an index, as each slice bound, after a field, and as a JSON literal: numbers are decimal (C01, C04, C08) *)
NumDigits == <<48, 49, 55, 56, 57>>
NumBody(j) == IF j < 5 THEN <<NumDigits[j + 1]>>
              ELSE IF j < 30 THEN <<NumDigits[((j - 5) \div 5) + 1], NumDigits[((j - 5) % 5) + 1]>>
              ELSE <<NumDigits[((j - 30) \div 25) + 1], NumDigits[(((j - 30) \div 5) % 5) + 1], NumDigits[((j - 30) % 5) + 1]>>
NumSpell(j) == IF j < 155 THEN NumBody(j) ELSE <<45>> \o NumBody(j - 155)
NumTexts(n) == << <<91>> \o n \o <<93>>, <<98, 91>> \o n \o <<93>>, <<91>> \o n \o <<58, 93>>, <<91, 58>> \o n \o <<93>>, <<91, 58, 58>> \o n \o <<93>>,
                  <<98, 91, 49, 58>> \o n \o <<58, 50, 93>>, <<96>> \o n \o <<96>>, <<91>> \o n \o <<44, 64, 93>> >>
NumDocs == LET big == Arr([i \in 1..12 |-> IntV(i - 1)]) IN <<big, Obj({<<<<98>>, big>>}), Arr(<<IntV(5)>>)>>

TextCase(i, text) ==
  LET m == CompileModel(text) IN
  [k |-> "case", id |-> i, n |-> Len(text), srcs |-> <<text>>,
   compile |-> IF m[1] = "ok" THEN "ok" ELSE IF m[1] = "err" THEN "err" ELSE "any",
   errkind |-> IF m[1] = "err" THEN m[2] ELSE "", offset |-> IF m[1] = "err" THEN m[3] ELSE -1,
   allowed |-> IF m[1] = "ok" THEN [d \in 1..Len(SearchDocs) |-> Outcomes(m[2], SearchDocs[d])] ELSE <<>>]

IdentTexts(c) == << <<97, c>>, <<c, 97>>, <<97, c, 98>>, <<95, c, 49>>, <<97, 49, c>>, <<97, c, c>>, <<34, 97, c, 34>>, <<39, c, 39>>, <<96, 34, c, 34, 96>>,
                    <<91, 34, c, c, 34>>, <<123, 34, c, c, 34>>, <<34, c, c, 34, 46>>, <<97, 46, 34, c, c, 34, 91>> >>
(* identifier contexts are exercised with every fine character AND every code point of Latin-1 Supplement / Latin Extended-A
   and a few from other blocks (members of the "letter beyond ASCII" class other than its representative) *)
IdentChars == FineQ \o [i \in 1..224 |-> 159 + i] \o <<7216, 7217, 12354, 40960, 66560, 199728, 917760>>

ValidUtf8(x) == \A i \in 1..Len(x) : x[i] >= 0
(* the C14 spellings of s, each with the value the property assigns (stated from s, not through the lexer model) *)
C14Cases(i, s) ==
  LET mk(j, text, v) == [k |-> "case", id |-> i * 16 + j, n |-> Len(s) + 1, srcs |-> <<text>>, compile |-> "ok", errkind |-> "", offset |-> -1,
                         allowed |-> <<{Ok(v)}>>, docidx |-> <<1>>]
  IN <<mk(1, LitText(Obj({<<s, IntV(7)>>})) \o <<124>> \o QuoteId(s), IntV(7)),
       mk(2, LitText(Str(s)), Str(s)),
       mk(4, <<123>> \o QuoteId(s) \o <<58>> \o LitText(Str(s)) \o <<125>>, Obj({<<s, Str(s)>>})),
       mk(5, <<108, 101, 110, 103, 116, 104, 40>> \o LitText(Str(s)) \o <<41>>, IntV(Len(s))),
       mk(6, LitText(Arr(<<Str(s), Str(s)>>)) \o <<91, 49, 93>>, Str(s))>>
     \o (IF RawSpellable(s) THEN <<mk(8, <<91>> \o RawText(s) \o <<44>> \o RawText(s) \o <<44>> \o RawText(<<120>> \o s) \o <<93>>, Arr(<<Str(s), Str(s), Str(<<120>> \o s)>>)),
                                   mk(9, RawText(s) \o <<124>> \o RawText(s \o <<121>>), Str(s \o <<121>>)),
                                   mk(3, RawText(s), Str(s)), mk(7, <<32>> \o RawText(s) \o <<61, 61>> \o LitText(Str(s)) \o <<9>>, Bool(TRUE))>> ELSE <<>>)

Mine(total) == LET per == (total + NShards - 1) \div NShards IN
               SelectSeq([m \in 1..per |-> (m - 1) * NShards + Shard], LAMBDA i : i < total /\ (i \div NShards) % Stride = Seed % Stride)
RECURSIVE FlatCat(_, _)
FlatCat(xs, j) == IF j > Len(xs) THEN <<>> ELSE xs[j] \o FlatCat(xs, j + 1)

Out ==
  LET hdr == [k |-> "docs", fam |-> Mode, total |-> NStrings, docs |-> SearchDocs] IN
  IF Mode \in {"coarse", "fine"}
  THEN LET mine == Mine(NStrings) IN <<hdr>> \o [m \in 1..Len(mine) |-> TextCase(mine[m], StringAt(mine[m]))]
  ELSE IF Mode = "nums"
  THEN LET mine == Mine(310) IN
       <<[k |-> "docs", fam |-> Mode, total |-> 310, docs |-> NumDocs]>>
       \o FlatCat([m \in 1..Len(mine) |-> LET ts == NumTexts(NumSpell(mine[m])) IN [j \in 1..Len(ts) |-> TextCaseD(mine[m] * 16 + j, ts[j], NumDocs)]], 1)
  ELSE IF Mode = "ident"
  THEN LET mine == Mine(Len(IdentChars)) IN
       <<hdr>> \o FlatCat([m \in 1..Len(mine) |-> LET ts == IdentTexts(IdentChars[mine[m] + 1]) IN [j \in 1..Len(ts) |-> TextCase(mine[m] * 16 + j, ts[j])]], 1)
  ELSE LET mine == Mine(NStrings) IN
       <<hdr>> \o FlatCat([m \in 1..Len(mine) |-> LET s == StringAt(mine[m]) IN IF ValidUtf8(s) THEN C14Cases(mine[m], s) ELSE <<>>], 1)

ASSUME LET out == Out IN
       /\ PrintT(<<"GEN", Mode, "emitted", Len(out) - 1>>)
       /\ ndJsonSerialize(OutFile, out)
VARIABLE x
Init == x = 0
Next == x' = x
=============================================================================
