------------------------------- MODULE Sched -------------------------------
(* All interleavings of two goroutines running one Search call each, at the granularity of the
   implementation's hook points (Execute entries, parser steps): goroutine g has Lim(g) gated steps.
   The pair of step counts is chosen from Pairs (measured on the real code by solo runs), so the
   schedule space is defined by the implementation's actual hook points.  The history variable sched
   makes every path a distinct state; a complete schedule is printed as JSON by the invariant Emit
   (exhaustive model checking enumerates all of them; -simulate samples long ones).

   The property decided on the interleavings themselves is in HeapRace.tla (no step writes a shared
   cell, hence every interleaving gives each goroutine its solo result); here the specification only
   generates the schedules that the harness replays on real goroutines. *)
EXTENDS Integers, Sequences, TLC, Json
CONSTANTS Pairs
VARIABLES lim, pc, sched
Init == lim \in Pairs /\ pc = <<0, 0>> /\ sched = <<>>
Step(g) == pc[g] < lim[g] /\ pc' = [pc EXCEPT ![g] = @ + 1] /\ sched' = Append(sched, g) /\ UNCHANGED lim
Next == Step(1) \/ Step(2)
Spec == Init /\ [][Next]_<<lim, pc, sched>>
Emit == (pc[1] < lim[1] \/ pc[2] < lim[2]) \/ PrintT(<<"SCHED", ToJson([n |-> lim, s |-> sched])>>)
(* every schedule is a merge of 1^n1 and 2^n2 *)
WellFormed == Len(sched) = pc[1] + pc[2] /\ pc[1] <= lim[1] /\ pc[2] <= lim[2]
=============================================================================
