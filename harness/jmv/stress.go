package main

// jmv stress: the part of C05 that is not bounded enumeration.
//   -amp file : size amplification of the nestable / chainable productions emitted by Gen_Amp.tla
//   -fuzz     : seeded random byte strings and random mutations of corpus expressions (fuzz/testdata,
//               compliance/*.json); the only check is: Compile and Search return, without panic, in time.

import (
	"bufio"
	"encoding/json"
	"flag"
	"fmt"
	"math/rand"
	"os"
	"path/filepath"
	"runtime"
	"sort"
	"strings"
	"time"
)

type ampRec struct {
	Name  string        `json:"name"`
	Pre   []interface{} `json:"pre"`
	Left  []interface{} `json:"left"`
	Core  []interface{} `json:"core"`
	Right []interface{} `json:"right"`
	Post  []interface{} `json:"post"`
	Small []struct {
		Src     []interface{} `json:"src"`
		Compile string        `json:"compile"`
		Allowed []interface{} `json:"allowed"`
	} `json:"small"`
	Doc interface{} `json:"doc"`
}

type stressViolation struct {
	Cat      string        `json:"cat"`
	Src      string        `json:"src"`
	SrcCps   []interface{} `json:"src_cps,omitempty"`
	Observed string        `json:"observed"`
	Allowed  interface{}   `json:"allowed,omitempty"`
	Doc      interface{}   `json:"doc,omitempty"`
	Fam      string        `json:"fam"`
	ID       int           `json:"id"`
}

func bytesToCps(s string) []interface{} {
	// exact bytes: valid runes as code points, every other byte as a negative number
	out := []interface{}{}
	for i := 0; i < len(s); {
		r, w := rune(s[i]), 1
		if s[i] >= 0x80 {
			r, w = decodeRune(s[i:])
		}
		if r == 0xFFFD && w == 1 {
			out = append(out, -int(s[i]))
		} else {
			out = append(out, int(r))
		}
		i += w
	}
	return out
}

func cmdStress(args []string) int {
	fs := flag.NewFlagSet("stress", flag.ExitOnError)
	out := fs.String("out", "", "summary (JSON)")
	amp := fs.String("amp", "", "amplification patterns (ndjson from Gen_Amp)")
	fuzz := fs.Int("fuzz", 0, "number of random / mutated expressions")
	seed := fs.Int64("seed", 1, "seed")
	repo := fs.String("repo", "/repo", "repository (for the seed corpus)")
	maxLen := fs.Int("maxlen", 65536, "maximum expression size in bytes")
	fs.Parse(args)
	sum := struct {
		Cases       int               `json:"cases"`
		Evaluations int               `json:"evaluations"`
		Nontrivial  int               `json:"distinct_nontrivial"`
		Counts      map[string]int    `json:"violation_counts"`
		Violations  []stressViolation `json:"violations"`
		Samples     []interface{}     `json:"samples"`
		MaxMillis   float64           `json:"max_millis_per_64KiB"`
		MaxAllocMB  float64           `json:"max_alloc_mb"`
	}{Counts: map[string]int{}}
	add := func(cat, fam string, id int, src, obs string) {
		sum.Counts[cat]++
		if len(sum.Violations) < 100 {
			v := stressViolation{Cat: cat, Src: src, Observed: obs, Fam: fam, ID: id}
			if len(src) <= 4096 {
				v.SrcCps = bytesToCps(src)
				v.Doc = []interface{}{"null"}
				v.Allowed = []interface{}{[]interface{}{"unspec"}}
			}
			sum.Violations = append(sum.Violations, v)
		}
	}
	docs := []interface{}{nil, map[string]interface{}{"a": []interface{}{map[string]interface{}{"a": 1.0}, 2.0}, "b": "x"}, []interface{}{1.0, "a", nil}}
	// run one expression under recover + watchdog with a time budget linear in its size
	runOne := func(fam string, id int, src string) {
		sum.Cases++
		budget := 2*time.Second + time.Duration(len(src))*200*time.Microsecond // ~13 s for 64 KiB: generous, linear
		done := make(chan string, 1)
		start := time.Now()
		var ms runtime.MemStats
		runtime.ReadMemStats(&ms)
		before := ms.TotalAlloc
		go func() {
			jp, _, co := compileObs(src)
			if co.Kind == "panic" {
				done <- "compile panic: " + co.Err
				return
			}
			if jp != nil {
				for _, d := range docs {
					o := direct(func() (interface{}, error) { return jp.Search(d) })
					if o.Kind == "panic" {
						done <- "search panic: " + o.Err
						return
					}
				}
			}
			done <- ""
		}()
		select {
		case msg := <-done:
			if msg != "" {
				add("panic", fam, id, src, msg)
			}
		case <-time.After(budget):
			add("timeout", fam, id, src, fmt.Sprintf("no return within %v for %d bytes", budget, len(src)))
			return
		}
		sum.Evaluations += 1 + len(docs)
		el := time.Since(start)
		runtime.ReadMemStats(&ms)
		if per := float64(el.Milliseconds()) * 65536 / float64(len(src)+1024); per > sum.MaxMillis && len(src) > 4096 {
			sum.MaxMillis = per
		}
		if mb := float64(ms.TotalAlloc-before) / 1e6; mb > sum.MaxAllocMB {
			sum.MaxAllocMB = mb
		}
		// memory bounded by the size of expression + document + result: flag only gross blow-ups (> 4 KiB allocated per input byte + 64 MB)
		if float64(ms.TotalAlloc-before) > 64e6+4096*float64(len(src)) {
			add("memory", fam, id, src, fmt.Sprintf("%d bytes allocated for a %d byte expression", ms.TotalAlloc-before, len(src)))
		}
	}
	if *amp != "" {
		f, err := os.Open(*amp)
		if err != nil {
			fmt.Fprintln(os.Stderr, err)
			return 2
		}
		sc := bufio.NewScanner(f)
		sc.Buffer(make([]byte, 1<<24), 1<<24)
		id := 0
		for sc.Scan() {
			var p ampRec
			if err := json.Unmarshal(sc.Bytes(), &p); err != nil {
				fmt.Fprintln(os.Stderr, err)
				return 2
			}
			pre, left, core, right, post := cpsToString(p.Pre), cpsToString(p.Left), cpsToString(p.Core), cpsToString(p.Right), cpsToString(p.Post)
			// small instances: the specification's verdict and outcome
			doc := decodeValue(p.Doc)
			for _, sm := range p.Small {
				src := cpsToString(sm.Src)
				jp, _, co := compileObs(src)
				sum.Evaluations++
				if (sm.Compile == "ok") != (co.Kind == "ok") {
					add("amp-small", "amp", id, src, "specification expects compile "+sm.Compile+", observed "+co.String())
				} else if jp != nil {
					o := direct(func() (interface{}, error) { return jp.Search(doc) })
					if m, _ := matchOutcome(o, sm.Allowed, false); !m {
						add("amp-small", "amp", id, src, o.String())
					}
				}
			}
			unit := len(left) + len(right)
			if unit == 0 {
				continue
			}
			for _, n := range []int{10, 1000, (*maxLen - len(pre) - len(core) - len(post)) / unit} {
				id++
				src := pre + strings.Repeat(left, n) + core + strings.Repeat(right, n) + post
				runOne("amp:"+p.Name, id, src)
				sum.Nontrivial++
				if n == 1000 && len(sum.Samples) < 4 {
					sum.Samples = append(sum.Samples, map[string]interface{}{"pattern": p.Name, "repetitions": n, "bytes": len(src), "expression_prefix": src[:40]})
				}
			}
		}
		f.Close()
	}
	if *fuzz > 0 {
		rng := rand.New(rand.NewSource(*seed))
		var corpus []string
		files, _ := filepath.Glob(filepath.Join(*repo, "fuzz", "testdata", "corpus", "*"))
		more, _ := filepath.Glob(filepath.Join(*repo, "fuzz", "testdata", "*"))
		files = append(files, more...)
		sort.Strings(files)
		for _, fn := range files {
			if b, err := os.ReadFile(fn); err == nil && len(b) > 0 && len(b) < 2000 {
				corpus = append(corpus, string(b))
			}
		}
		cfiles, _ := filepath.Glob(filepath.Join(*repo, "compliance", "*.json"))
		sort.Strings(cfiles)
		for _, fn := range cfiles {
			b, _ := os.ReadFile(fn)
			var suites []struct {
				Cases []struct {
					Expression string `json:"expression"`
				} `json:"cases"`
			}
			if json.Unmarshal(b, &suites) == nil {
				for _, s := range suites {
					for _, c := range s.Cases {
						corpus = append(corpus, c.Expression)
					}
				}
			}
		}
		if len(corpus) == 0 {
			corpus = []string{"a.b[0]", "a[?b==`1`].c", "sort_by(a, &b)"}
		}
		hostile := []string{"\x80", "\xff", "\xc0", "\u0080", "ÿ", "Ā", "\U0010ffff", "�", "`", "'", "\"", "\\", "[", "]", "[?", "[]", "(", ")", "{", "}", "&", "|", "||", "&&", "!", "<", "=", "==",
			"9223372036854775807", "-9223372036854775808", "9223372036854775808", "99999999999999999999", "-", "0", "1e999", ".", ",", ":", "*", "@", " ", "\t", "\n", "\r", "\x00", "\x7f", "a", "_", "abs(", "`{`", "`\"`", "\\u0080", "\\ud800"}
		seen := map[string]bool{}
		for i := 0; i < *fuzz; i++ {
			var src string
			switch rng.Intn(4) {
			case 0: // random bytes
				n := rng.Intn(24)
				b := make([]byte, n)
				for j := range b {
					b[j] = byte(rng.Intn(256))
				}
				src = string(b)
			case 1: // random hostile tokens
				n := 1 + rng.Intn(8)
				var sb strings.Builder
				for j := 0; j < n; j++ {
					sb.WriteString(hostile[rng.Intn(len(hostile))])
				}
				src = sb.String()
			default: // mutate a corpus expression: splice, delete, duplicate
				src = corpus[rng.Intn(len(corpus))]
				for m := rng.Intn(3) + 1; m > 0; m-- {
					pos := 0
					if len(src) > 0 {
						pos = rng.Intn(len(src) + 1)
					}
					switch rng.Intn(3) {
					case 0:
						src = src[:pos] + hostile[rng.Intn(len(hostile))] + src[pos:]
					case 1:
						if pos < len(src) {
							src = src[:pos] + src[pos+1:]
						}
					case 2:
						end := pos + rng.Intn(6)
						if end > len(src) {
							end = len(src)
						}
						src = src[:end] + src[pos:end] + src[end:]
					}
				}
			}
			runOne("fuzz", i, src)
			if !seen[src] {
				seen[src] = true
				sum.Nontrivial++
			}
		}
		sum.Samples = append(sum.Samples, map[string]interface{}{"fuzz_corpus_size": len(corpus), "seed": *seed})
	}
	b, _ := json.MarshalIndent(sum, "", " ")
	if *out != "" {
		os.WriteFile(*out, b, 0o644)
	} else {
		fmt.Println(string(b))
	}
	return 0
}
