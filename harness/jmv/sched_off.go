//go:build !verif

package main

const hooksAvailable = false

func setHooks(h func()) {}

var hookCount int64

func countingHook() {}

func recordEnters(f func()) []string { f(); return nil }

func recordParse(f func()) []interface{} { f(); return nil }
