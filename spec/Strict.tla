------------------------------ MODULE Strict ------------------------------
(* C11: which positions of an expression are evaluated.  Reached(c, v) says, structurally and
   independently of the error monad of Eval.tla, whether the hole of the one-hole context c is
   evaluated when c is evaluated against v: the right side of || / && only when not short-circuited,
   a projection's right-hand side or condition only over an element of a matching left-hand side,
   an expression-reference body only when the function applies it to an element.
   (A hole behind a sibling that errors first is not reached, but then the whole is an error anyway.)

   Theorem checked by MC_Eval (family C11): for an expression E that errors on every value,
     Reached(c, v)   =>  ERR \in Outcomes(c[E], v), and = {ERR} when the context is deterministic;
     ~Reached(c, v)  =>  Outcomes(c[E], v) = Outcomes(c[null-literal], v). *)
EXTENDS Eval

HoleIn(ks) == CHOOSE i \in 1..Len(ks) : HasHole(ks[i])
ElemsOf(v) == IF v[1] = "arr" THEN {v[2][i] : i \in 1..Len(v[2])} ELSE IF v[1] = "obj" THEN {kv[2] : kv \in v[2]} ELSE {}

RECURSIVE Reached(_, _)
Reached(c, v) ==
  IF c = Hole THEN TRUE
  ELSE LET k == c[1] ks == Kids(c) h == HoleIn(ks) IN
  CASE k = "OrExpression" -> IF h = 1 THEN Reached(c[2], v)
                             ELSE \E l \in OkVals(Outcomes(c[2], v)) : IsFalse(l) /\ Reached(c[3], v)
    [] k = "AndExpression" -> IF h = 1 THEN Reached(c[2], v)
                              ELSE \E l \in OkVals(Outcomes(c[2], v)) : ~IsFalse(l) /\ Reached(c[3], v)
    [] k = "Comparator" -> IF h = 1 THEN Reached(c[3], v) ELSE SomeOk(Outcomes(c[3], v)) /\ Reached(c[4], v)
    [] k \in {"NotExpression", "Flatten", "KeyValPair"} -> Reached(ks[1], v)
    [] k \in {"Subexpression", "IndexExpression", "Pipe"} ->
         IF h = 1 THEN Reached(c[2], v) ELSE \E l \in OkVals(Outcomes(c[2], v)) : Reached(c[3], l)
    [] k \in {"MultiSelectList", "MultiSelectHash"} ->
         v[1] # "null" /\ (\A i \in 1..(h - 1) : SomeOk(Outcomes(ks[i], v))) /\ Reached(ks[h], v)
    [] k = "FunctionExpression" ->
         /\ \A i \in 1..(h - 1) : SomeOk(Outcomes(ks[i], v))
         /\ IF ks[h][1] # "ExpRef" THEN Reached(ks[h], v)
            ELSE \* the hole is in the body of an expression reference: reached when the function applies it
                 LET name == FnOf(c[2]) IN
                 /\ name \in ByExpr /\ Len(ks) = 2
                 /\ \A i \in (h + 1)..Len(ks) : SomeOk(Outcomes(ks[i], v))
                 /\ \E args \in OkVals(EvEach([i \in 1..Len(ks) |-> IF i = h THEN Ref(Lit(Null)) ELSE ks[i]], v)) :
                      /\ ArgsOK(name, args)
                      /\ \E el \in ElemsOf(args[IF name = "map" THEN 2 ELSE 1]) : Reached(ks[h][2], el)
    [] k = "ExpRef" -> FALSE      \* a bare expression reference is not evaluated
    [] k = "Projection" ->
         IF h = 1 THEN Reached(c[2], v)
         ELSE \E l \in OkVals(Outcomes(c[2], v)) : l[1] = "arr" /\ \E el \in ElemsOf(l) : Reached(c[3], el)
    [] k = "ValueProjection" ->
         IF h = 1 THEN Reached(c[2], v)
         ELSE \E l \in OkVals(Outcomes(c[2], v)) : l[1] = "obj" /\ \E el \in ElemsOf(l) : Reached(c[3], el)
    [] k = "FilterProjection" ->
         IF h = 1 THEN Reached(c[2], v)
         ELSE \E l \in OkVals(Outcomes(c[2], v)) : l[1] = "arr" /\
                \E el \in ElemsOf(l) : IF h = 3 THEN Reached(c[4], el)
                                       ELSE (\E cv \in OkVals(Outcomes(c[4], el)) : ~IsFalse(cv)) /\ Reached(c[3], el)
    [] OTHER -> FALSE
=============================================================================
