------------------------------- MODULE Parser -------------------------------
(* The Pratt (top-down operator precedence) parser of parser.go as a specification (C03, C04, C05,
   C13, C17): bindingPowers as the table BP, the loop  "bp < BP(current)"  as LedLoop, one CASE arm per
   arm of nud() and led(), and the helper parsers (index / slice, multi-select list and hash, filter,
   dot right-hand side, projection right-hand side) as separate operators.  Written as recursive
   operators over an immutable token sequence and an index, which is how the code uses p.tokens and
   p.index; the explicit-stack machine form is ParserM.tla.

   Tokens are <<type, value>>; the last one is <<"eof", <<>>>>.  Values: uid/qid/strlit code points,
   number an integer (or <<"number", 0, huge>>, see Slice.tla), jsonlit a JSON *value*.
   Result of every operator: <<"ok", node, nextIndex>> or <<"err", <<>>, indexOfOffendingToken>> (a syntax
   error), or <<"other", ..>> (a conversion error of strconv / encoding/json raised when the token is consumed).

   The specification is the *grammar-conforming* parser.  Deviations the pinned code had are named
   switches in Dev: "VPDot40" (right-hand side of `l.*` parsed with dot's power), "ArgsNoComma"
   (function arguments need no separator), "HashNoComma", "LaxSlice", "AnyCallee",
   "NudSwallowsBracketError". *)
EXTENDS Grammar

BP(t) == CASE t = "pipe" -> 1 [] t = "or" -> 2 [] t = "and" -> 3
           [] t \in {"eq", "lt", "lte", "gt", "gte", "ne"} -> 5
           [] t = "flatten" -> 9 [] t = "star" -> 20 [] t = "filter" -> 21
           [] t = "dot" -> 40 [] t = "not" -> 45 [] t = "lbrace" -> 50
           [] t = "lbracket" -> 55 [] t = "lparen" -> 60
           [] OTHER -> 0

POk(n, i) == <<"ok", n, i>>
PErr(i) == <<"err", <<>>, i>>
PIsOk(r) == r[1] = "ok"
TT(toks, i) == toks[i][1]
TV(toks, i) == toks[i][2]
(* a number / literal token whose text could not be converted (strconv.Atoi, json.Unmarshal) carries a third
   component <<"bad">> or <<"unmodelled">>; the conversion error surfaces when the parser consumes the token *)
BadTok(tk) == Len(tk) = 3 /\ tk[3][1] \in {"bad", "unmodelled"}
PConvErr(tk, i) == IF tk[3][1] = "unmodelled" THEN <<"unmodelled", <<>>, i>> ELSE <<"other", <<>>, i>>
(* slice / index parameter carried by a number token *)
NumParam(tk) == IF Len(tk) = 3 THEN tk[3] ELSE IntP(tk[2])
IndexNode(tk) == IF Len(tk) = 3 THEN <<"Index", 0, tk[3]>> ELSE Index(tk[2])

RECURSIVE ParseExpr(_, _, _), Led(_, _, _, _), Nud(_, _), LedLoop(_, _, _, _),
          ParseProjRHS(_, _, _), ParseDotRHS(_, _, _), ParseMSL(_, _, _), ParseMSH(_, _, _),
          ParseFilter(_, _, _), ParseArgs(_, _, _), ParseIndex(_, _), ParseSliceParts(_, _, _, _, _)

(* parseExpression(bp): the token at i is the nud token *)
ParseExpr(toks, i, bp) ==
  LET l == Nud(toks, i) IN
  IF ~PIsOk(l) THEN l ELSE LedLoop(toks, l[2], l[3], bp)

LedLoop(toks, left, i, bp) ==
  IF bp < BP(TT(toks, i))
  THEN LET r == Led(toks, TT(toks, i), left, i + 1) IN
       IF ~PIsOk(r) THEN r ELSE LedLoop(toks, r[2], r[3], bp)
  ELSE POk(left, i)

ProjectIfSlice(toks, left, right, i) ==
  LET ie == IdxE(left, right) IN
  IF right[1] = "Slice"
  THEN LET r == ParseProjRHS(toks, i, BP("star")) IN
       IF PIsOk(r) THEN POk(Proj(ie, r[2]), r[3]) ELSE r
  ELSE POk(ie, i)

(* after "[" when the current token is a number or a colon; returns the node and the index after "]" *)
ParseIndex(toks, i) ==
  IF TT(toks, i) = "colon" \/ TT(toks, i + 1) = "colon"
  THEN ParseSliceParts(toks, i, 1, <<NoneP, NoneP, NoneP>>, FALSE)
  ELSE IF BadTok(toks[i]) THEN PConvErr(toks[i], i)
  ELSE IF TT(toks, i + 1) = "rbracket" THEN POk(IndexNode(toks[i]), i + 2) ELSE PErr(i + 1)

(* slice: [number] ":" [number] [ ":" [number] ] *)
ParseSliceParts(toks, i, part, parts, justNum) ==
  LET t == TT(toks, i) IN
  IF t = "rbracket" THEN (IF part >= 2 \/ "LaxSlice" \in Dev THEN POk(<<"Slice", parts>>, i + 1) ELSE PErr(i))
  ELSE IF t = "colon" THEN (IF part < 3 THEN ParseSliceParts(toks, i + 1, part + 1, parts, FALSE)
                            ELSE IF "LaxSlice" \in Dev /\ TT(toks, i + 1) = "rbracket" THEN POk(<<"Slice", parts>>, i + 2) ELSE PErr(i))
  ELSE IF t = "number" /\ (~justNum \/ "LaxSlice" \in Dev) THEN
       IF BadTok(toks[i]) THEN PConvErr(toks[i], i) ELSE ParseSliceParts(toks, i + 1, part, [parts EXCEPT ![part] = NumParam(toks[i])], TRUE)
  ELSE PErr(i)

Led(toks, t, left, i) ==
  CASE t = "dot" ->
         IF TT(toks, i) # "star"
         THEN LET r == ParseDotRHS(toks, i, BP("dot")) IN
              IF PIsOk(r) THEN POk(Sub(left, r[2]), r[3]) ELSE r
         ELSE LET r == ParseProjRHS(toks, i + 1, IF "VPDot40" \in Dev THEN BP("dot") ELSE BP("star")) IN
              IF PIsOk(r) THEN POk(VProj(left, r[2]), r[3]) ELSE r
    [] t \in {"pipe", "or", "and"} ->
         LET r == ParseExpr(toks, i, BP(t)) IN
         IF PIsOk(r) THEN POk(<<(CASE t = "pipe" -> "Pipe" [] t = "or" -> "OrExpression" [] t = "and" -> "AndExpression"), left, r[2]>>, r[3]) ELSE r
    [] t = "lparen" ->
         \* the callee must be the bare unquoted identifier just before "("
         IF "AnyCallee" \notin Dev /\ (i < 3 \/ TT(toks, i - 2) # "uid" \/ left[1] # "Field") THEN PErr(i - 1)
         ELSE IF left[1] # "Field" THEN <<"panic", <<>>, i - 1>>
         ELSE IF TT(toks, i) = "rparen" THEN POk(Fn(left[2], <<>>), i + 1)
         ELSE LET r == ParseArgs(toks, i, <<>>) IN
              IF PIsOk(r) THEN POk(Fn(left[2], r[2]), r[3]) ELSE r
    [] t = "filter" -> ParseFilter(toks, left, i)
    [] t = "flatten" ->
         LET r == ParseProjRHS(toks, i, BP("flatten")) IN
         IF PIsOk(r) THEN POk(Proj(Flat(left), r[2]), r[3]) ELSE r
    [] t \in {"eq", "ne", "gt", "gte", "lt", "lte"} ->
         LET r == ParseExpr(toks, i, BP(t)) IN
         IF PIsOk(r) THEN POk(Cmp(t, left, r[2]), r[3]) ELSE r
    [] t = "lbracket" ->
         IF TT(toks, i) \in {"number", "colon"}
         THEN LET r == ParseIndex(toks, i) IN
              IF PIsOk(r) THEN ProjectIfSlice(toks, left, r[2], r[3]) ELSE r
         ELSE IF TT(toks, i) = "star" /\ TT(toks, i + 1) = "rbracket"
              THEN LET r == ParseProjRHS(toks, i + 2, BP("star")) IN
                   IF PIsOk(r) THEN POk(Proj(left, r[2]), r[3]) ELSE r
              ELSE PErr(IF TT(toks, i) = "star" THEN i + 1 ELSE i)
    [] OTHER -> PErr(i)        \* a token with a binding power but no led: reported at the token after it

ParseArgs(toks, i, acc) ==
  LET r == ParseExpr(toks, i, 0) IN
  IF ~PIsOk(r) THEN r
  ELSE IF TT(toks, r[3]) = "comma" THEN (IF "ArgsNoComma" \in Dev /\ TT(toks, r[3] + 1) = "rparen" THEN POk(Append(acc, r[2]), r[3] + 2)
                                         ELSE ParseArgs(toks, r[3] + 1, Append(acc, r[2])))
  ELSE IF TT(toks, r[3]) = "rparen" THEN POk(Append(acc, r[2]), r[3] + 1)
  ELSE IF "ArgsNoComma" \in Dev THEN ParseArgs(toks, r[3], Append(acc, r[2]))
  ELSE PErr(r[3])

Nud(toks, i) ==
  LET t == TT(toks, i) v == TV(toks, i) j == i + 1 IN
  CASE t = "jsonlit" -> IF BadTok(toks[i]) THEN PConvErr(toks[i], i) ELSE POk(Lit(v), j)
    [] t = "strlit" -> POk(Lit(Str(v)), j)
    [] t = "uid" -> POk(Field(v), j)
    [] t = "qid" -> IF TT(toks, j) = "lparen" THEN PErr(i) ELSE POk(Field(v), j)
    [] t = "star" ->
         IF TT(toks, j) = "rbracket" THEN POk(VProj(Identity, Identity), j)
         ELSE LET r == ParseProjRHS(toks, j, BP("star")) IN
              IF PIsOk(r) THEN POk(VProj(Identity, r[2]), r[3]) ELSE r
    [] t = "filter" -> ParseFilter(toks, Identity, j)
    [] t = "lbrace" -> ParseMSH(toks, j, <<>>)
    [] t = "flatten" ->
         LET r == ParseProjRHS(toks, j, BP("flatten")) IN
         IF PIsOk(r) THEN POk(Proj(Flat(Identity), r[2]), r[3]) ELSE r
    [] t = "lbracket" ->
         IF TT(toks, j) \in {"number", "colon"}
         THEN LET r == ParseIndex(toks, j) IN
              IF PIsOk(r) THEN ProjectIfSlice(toks, Identity, r[2], r[3])
              ELSE IF "NudSwallowsBracketError" \in Dev THEN POk(<<"Empty">>, r[3]) ELSE r
         ELSE IF TT(toks, j) = "star" /\ TT(toks, j + 1) = "rbracket"
              THEN LET r == ParseProjRHS(toks, j + 2, BP("star")) IN
                   IF PIsOk(r) THEN POk(Proj(Identity, r[2]), r[3]) ELSE r
              ELSE ParseMSL(toks, j, <<>>)
    [] t = "current" -> POk(Current, j)
    [] t = "expref" ->
         LET r == ParseExpr(toks, j, BP("expref")) IN
         IF PIsOk(r) THEN POk(Ref(r[2]), r[3]) ELSE r
    [] t = "not" ->
         LET r == ParseExpr(toks, j, BP("not")) IN
         IF PIsOk(r) THEN POk(Not(r[2]), r[3]) ELSE r
    [] t = "lparen" ->
         LET r == ParseExpr(toks, j, 0) IN
         IF ~PIsOk(r) THEN r ELSE IF TT(toks, r[3]) = "rparen" THEN POk(r[2], r[3] + 1) ELSE PErr(r[3])
    [] OTHER -> PErr(i)

ParseMSL(toks, i, acc) ==
  LET r == ParseExpr(toks, i, 0) IN
  IF ~PIsOk(r) THEN r
  ELSE IF TT(toks, r[3]) = "rbracket" THEN POk(MSL(Append(acc, r[2])), r[3] + 1)
  ELSE IF TT(toks, r[3]) = "comma" THEN ParseMSL(toks, r[3] + 1, Append(acc, r[2]))
  ELSE PErr(r[3])

ParseMSH(toks, i, acc) ==
  IF TT(toks, i) \notin {"uid", "qid"} THEN PErr(i)
  ELSE IF TT(toks, i + 1) # "colon" THEN PErr(i + 1)
  ELSE LET r == ParseExpr(toks, i + 2, 0) IN
       IF ~PIsOk(r) THEN r
       ELSE LET kv == KV(TV(toks, i), r[2]) IN
            IF TT(toks, r[3]) = "comma" THEN ParseMSH(toks, r[3] + 1, Append(acc, kv))
            ELSE IF TT(toks, r[3]) = "rbrace" THEN POk(MSH(Append(acc, kv)), r[3] + 1)
            ELSE IF "HashNoComma" \in Dev THEN ParseMSH(toks, r[3], Append(acc, kv))
            ELSE PErr(r[3])

ParseFilter(toks, left, i) ==
  LET c == ParseExpr(toks, i, 0) IN
  IF ~PIsOk(c) THEN c
  ELSE IF TT(toks, c[3]) # "rbracket" THEN PErr(c[3])
  ELSE IF TT(toks, c[3] + 1) = "flatten" THEN POk(Filt(left, Identity, c[2]), c[3] + 1)
  ELSE LET r == ParseProjRHS(toks, c[3] + 1, BP("filter")) IN
       IF PIsOk(r) THEN POk(Filt(left, r[2], c[2]), r[3]) ELSE r

ParseDotRHS(toks, i, bp) ==
  LET t == TT(toks, i) IN
  IF t \in {"qid", "uid", "star"} THEN ParseExpr(toks, i, bp)
  ELSE IF t = "lbracket" THEN ParseMSL(toks, i + 1, <<>>)
  ELSE IF t = "lbrace" THEN ParseMSH(toks, i + 1, <<>>)
  ELSE PErr(i)

ParseProjRHS(toks, i, bp) ==
  LET t == TT(toks, i) IN
  IF BP(t) < 10 THEN POk(Identity, i)
  ELSE IF t \in {"lbracket", "filter"} THEN ParseExpr(toks, i, bp)
  ELSE IF t = "dot" THEN ParseDotRHS(toks, i + 1, bp)
  ELSE PErr(i)

(* Parser.Parse on a token sequence that ends with eof: <<"ok", ast>> or <<"err", tokenIndex>> *)
Parse(toks) ==
  LET r == ParseExpr(toks, 1, 0) IN
  IF r[1] \in {"panic", "other", "unmodelled"} THEN <<r[1]>>
  ELSE IF ~PIsOk(r) THEN <<"err", r[3]>>
  ELSE IF TT(toks, r[3]) = "eof" THEN <<"ok", r[2]>> ELSE <<"err", r[3]>>

EOFT == <<"eof", <<>>>>
ParseToks(toks) == Parse(Append(toks, EOFT))
Accepts(toks) == ParseToks(toks)[1] = "ok"
=============================================================================
