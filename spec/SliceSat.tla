---- MODULE SliceSat ----
(* For Apalache (C08, thorough tier): saturation lemma of Python-style slicing over unbounded integers.
   Positions selected by [start:stop:step] on an array of length n (present parameters only; absent ones are
   handled by defaults that are themselves within the saturated range). *)
EXTENDS Integers

VARIABLES
  \* @type: Int;
  n,
  \* @type: Int;
  a,
  \* @type: Int;
  b,
  \* @type: Int;
  k

MaxN == 6

\* @type: (Int, Int, Int) => Int;
Clamp(x, lo, hi) == IF x < lo THEN lo ELSE IF x > hi THEN hi ELSE x
\* @type: (Int, Int) => Int;
Norm(x, len) == IF x < 0 THEN x + len ELSE x

\* @type: (Int, Int, Int, Int) => Set(Int);
Sel(len, start, stop, step) ==
  IF step > 0
  THEN LET lo == Clamp(Norm(start, len), 0, len)
           hi == Clamp(Norm(stop, len), 0, len)
       IN { i \in 0..(MaxN - 1) : i < len /\ i >= lo /\ i < hi /\ \E j \in 0..MaxN : i = lo + j * step }
  ELSE LET hi == Clamp(Norm(start, len), -1, len - 1)
           lo == Clamp(Norm(stop, len), -1, len - 1)
       IN { i \in 0..(MaxN - 1) : i < len /\ i <= hi /\ i > lo /\ \E j \in 0..MaxN : i = hi + j * step }

\* saturate a bound / a step to the window that TLC enumerates
\* @type: (Int, Int) => Int;
SatB(x, len) == Clamp(x, -(len + 1), len + 1)
\* @type: (Int, Int) => Int;
SatK(x, len) == Clamp(x, -(len + 1), len + 1)

Init == /\ n \in 0..MaxN
        /\ a \in Int /\ b \in Int /\ k \in Int /\ k # 0
Next == UNCHANGED <<n, a, b, k>>

Saturation == Sel(n, a, b, k) = Sel(n, SatB(a, n), SatB(b, n), SatK(k, n))
\* negative control: saturating to +-len (one too tight) is NOT sound
\* @type: (Int, Int) => Int;
TightB(x, len) == Clamp(x, -len, len)
WrongSaturation == Sel(n, a, b, k) = Sel(n, TightB(a, n), TightB(b, n), SatK(k, n))
====
