------------------------------ MODULE ApiPools ------------------------------
(* Pools shared by MC_Api (model checking of Api.tla) and Gen_Api (histories for replay). *)
EXTENDS Text
cA == <<97>>
cB == <<98>>
I(k) == IntV(k)
SortByCur == Fn(NameCps["sort_by"], <<Current, Ref(Current)>>)
MCAsts == << Fn(NameCps["sort_by"], <<Lit(Arr(<<I(3), I(1), I(2)>>)), Ref(Current)>>),
             Pipe(SortByCur, IdxE(Identity, Index(0))),
             MSL(<<SortByCur, IdxE(Identity, Index(0))>>),
             Fn(NameCps["abs"], <<Field(cA)>>),
             VProj(Identity, Identity),
             Fn(NameCps["sort_by"], <<Field(cA), Ref(Field(cA))>>),
             Sub(Field(cA), Field(cB)),
             MSL(<<Fn(NameCps["not_null"], <<Field(cA), Field(cB)>>), Fn(NameCps["not_null"], <<Field(cA), Field(cB), Field(<<99>>)>>)>>),
             Or(Fn(NameCps["merge"], <<Field(cA)>>), Fn(NameCps["not_null"], <<Field(cB), Field(cA), Lit(I(7)), Lit(I(8))>>)),
             Proj(IdxE(Current, SliceN(IntP(-2), NoneP, NoneP)), Identity),
             Proj(Current, Proj(IdxE(Identity, SliceN(NoneP, IntP(4), NoneP)), Identity)),
             MSL(<<Fn(NameCps["not_null"], <<Field(cB), Lit(I(1)), Lit(I(2))>>), Fn(NameCps["not_null"], <<Field(cB)>>), Fn(NameCps["max_by"], <<Current, Ref(Current)>>)>>) >>
MCDocs == << Arr(<<I(3), I(1), I(2)>>), Arr(<<I(5), I(4), I(3), I(2), I(1), I(0)>>), Arr(<<Arr(<<I(1), I(2), I(3), I(4), I(5), I(6)>>), Arr(<<I(7)>>), Arr(<<I(8), I(9)>>)>>), Obj({<<cA, I(-1)>>, <<cB, Str(<<120>>)>>}), Obj({<<cA, Str(<<120>>)>>}),
             Obj({<<cA, Arr(<<Obj({<<cA, I(2)>>}), Obj({<<cA, I(1)>>})>>)>>}), Null >>
(* a.b | [0 | (unclosed quote) | a[1] | a.b.c | * | a( | `1` *)
MCTexts == << <<97, 46, 98>>, <<91, 48>>, <<34, 97>>, <<97, 91, 49, 93>>, <<97, 46, 98, 46, 99>>, <<42>>, <<97, 40>>, <<96, 49, 96>>, <<97, 124, 124>>,
             <<39, 105, 116, 92, 39, 115>>, <<39, 120, 39>>, <<97, 91, 63, 98, 61, 61, 39, 120, 39, 93>>,   \* 'it\'s (unclosed) | 'x' | a[?b=='x']
             <<97, 32, 98>>, <<97, 93>> >>      \* a b | a]  (a complete expression followed by a token: rejected only by the final end-of-input check)
=============================================================================
