----------------------------- MODULE Gen_Parse -----------------------------
(* Generators for the syntax families (C04, C17, part of C05):

   Mode "strings":  every token string over Alpha up to length MaxLen (index-decoded in base |Alpha|),
                    rendered to text in three whitespace styles, with the verdict of the grammar:
                    compile = "ok" iff Grammatical; strings that only the deviation production D1
                    derives are expected to be rejected and carry tag "D1".  For accepted strings the
                    AST of the specification's Pratt machine gives the allowed outcomes on a few
                    documents, so that "compiles into something that misbehaves when searched" is seen.
   Mode "mutants":  near misses to depth: sentences spelled from the ASTs of an evaluator family
                    (Families.tla), and every single-token deletion, adjacent transposition, replacement
                    and insertion of them, classified the same way. *)
EXTENDS Families, Parser, Json

CONSTANTS Mode, MaxLen, Shard, NShards, OutFile, Seed, Stride, Stride3

(* Mode "deep": longer strings (MaxLen 6) over the few tokens that nest -- parentheses, an unquoted and a quoted identifier, comma, @ --
   for what only shows behind a parenthesised operand: `(abs)(a)`, `((a))`, `f((a),(b))` ... *)
AlphaDeep == <<T("lparen"), T("rparen"), <<"uid", <<97, 98, 115>>>>, <<"qid", <<98>>>>, T("comma"), T("current")>>
AlphaFull == <<T("star"), T("dot"), T("filter"), T("flatten"), T("lparen"), T("rparen"), T("lbracket"), T("rbracket"),
              T("lbrace"), T("rbrace"), T("or"), T("pipe"), <<"number", 0>>, <<"uid", <<97>>>>, <<"qid", <<98>>>>, T("comma"),
              T("colon"), T("lt"), <<"jsonlit", IntV(1)>>, T("current"), T("expref"), T("and"), T("not"), T("unknown"),
              T("eq"), <<"strlit", <<97>>>>, <<"number", -1>>, <<"uid", <<97, 98, 115>>>> >>      \* ... , ==, 'a', -1, abs
AlphaSeq == IF Mode = "deep" THEN AlphaDeep ELSE AlphaFull
NA == Len(AlphaSeq)
RECURSIVE CountUpTo(_)
CountUpTo(n) == IF n < 0 THEN 0 ELSE CountUpTo(n - 1) + PowN(NA, n)
RECURSIVE DigitsA(_, _)
DigitsA(n, len) == IF len = 0 THEN <<>> ELSE <<AlphaSeq[(n % NA) + 1]>> \o DigitsA(n \div NA, len - 1)
StringAt(j) == LET len == CHOOSE a \in 0..MaxLen : CountUpTo(a - 1) <= j /\ j < CountUpTo(a) IN DigitsA(j - CountUpTo(len - 1), len)
NStrings == CountUpTo(MaxLen)

(* single-token edits of a token sequence, numbered 0 .. MutCount(n)-1 *)
MutCount(n) == n + (IF n > 0 THEN n - 1 ELSE 0) + n * NA + (n + 1) * NA
DelTok(t, p) == SubSeq(t, 1, p - 1) \o SubSeq(t, p + 1, Len(t))
MutAt(t, m) ==
  LET n == Len(t) IN
  IF m < n THEN DelTok(t, m + 1)
  ELSE IF m < n + (n - 1) THEN LET p == m - n + 1 IN [i \in 1..n |-> IF i = p THEN t[p + 1] ELSE IF i = p + 1 THEN t[p] ELSE t[i]]
  ELSE IF m < n + (n - 1) + n * NA THEN LET q == m - n - (n - 1) IN [t EXCEPT ![(q \div NA) + 1] = AlphaSeq[(q % NA) + 1]]
  ELSE LET q == m - n - (n - 1) - n * NA p == q \div NA IN SubSeq(t, 1, p) \o <<AlphaSeq[(q % NA) + 1]>> \o SubSeq(t, p + 1, n)

SearchDocs == <<O2(cA, O2(cA, I(1), cB, A2(I(1), I(2))), cB, A3(O1(cA, I(1)), I(2), A1(I(3)))), A3(I(3), I(1), I(2)), Null>>

Verdict(s) == IF Grammatical(s) THEN <<"ok", "">> ELSE IF GrammaticalD1(s) THEN <<"err", "D1">> ELSE <<"err", "">>
CaseOfToks(i, s) ==
  LET v == Verdict(s)
      pr == IF v[1] = "ok" THEN ParseToks(s) ELSE <<"none">>
  IN [k |-> "case", id |-> i, n |-> Len(s), compile |-> v[1], tag |-> v[2],
      srcs |-> <<Render(s, "tight"), Render(s, "space"), Render(s, "mixed")>>,
      allowed |-> IF pr[1] = "ok" THEN [d \in 1..Len(SearchDocs) |-> Outcomes(pr[2], SearchDocs[d])] ELSE <<>>,
      specparse |-> pr[1]]

StringsOut == LET per == (NStrings + NShards - 1) \div NShards
                  mine == Prog(0, NStrings, NShards * Stride, NShards * (Seed % Stride) + Shard)
              IN <<[k |-> "docs", fam |-> "C04", total |-> NStrings, docs |-> SearchDocs]>>
                 \o [m \in 1..Len(mine) |-> CaseOfToks(mine[m], StringAt(mine[m]))]

(* mutants of the sentences of Family: sentence x (index into the family's index space, thinned by
   Stride / Stride3), mutation m thinned by the seed *)
MutantsOut ==
  LET g == Ctx
      sents == MineSeq(g, Shard, NShards, Stride, Stride3, Seed)
      toksOf(i) == UnparseMin(ExprAt(g, i))
      casesOf(i) == LET t == toksOf(i) IN
                    IF IsBad(t) \/ Len(t) > 14 THEN <<>>
                    ELSE LET ms == Prog(0, MutCount(Len(t)), 7, (Seed + i) % 7) IN
                         <<CaseOfToks((i % 1000000) * 1000, t)>> \o [q \in 1..Len(ms) |-> CaseOfToks((i % 1000000) * 1000 + ms[q] + 1, MutAt(t, ms[q]))]
      RECURSIVE CatCases(_)
      CatCases(j) == IF j > Len(sents) THEN <<>> ELSE casesOf(sents[j]) \o CatCases(j + 1)
  IN <<[k |-> "docs", fam |-> "C04m", total |-> g.total, docs |-> SearchDocs]>> \o CatCases(1)

ASSUME LET out == IF Mode \in {"strings", "deep"} THEN StringsOut ELSE MutantsOut IN
       /\ PrintT(<<"GEN", Mode, "emitted", Len(out) - 1>>)
       /\ ndJsonSerialize(OutFile, out)
VARIABLE x
Init == x = 0
Next == x' = x
=============================================================================
