------------------------------ MODULE Gen_Sched ------------------------------
(* Workloads for schedule replay and for the race monitor (C12, C06): pairs of expressions searched
   concurrently on one shared document -- through one shared compiled expression when both goroutines run
   the same expression, and also through the one-shot Search -- with the outcome set the specification
   allows for each call, which by HeapRace / Api (no action writes a shared cell) is the solo outcome set. *)
EXTENDS Universe, Json, SequencesExt
CONSTANTS OutFile

C2x(name, a, b) == Fn(NameCps[name], <<a, b>>)
C1x(name, a) == Fn(NameCps[name], <<a>>)
Pool == << C2x("sort_by", Current, Ref(Current)),
           MSL(<<IdxE(Current, Index(0)), IdxE(Current, Index(2))>>),
           Pipe(C2x("sort_by", Lit(A3(I(3), I(1), I(2))), Ref(Current)), IdxE(Identity, Index(0))),
           C2x("sort_by", fA, Ref(fB)),
           Proj(fA, fB),
           C1x("reverse", Current),
           C2x("merge", IdxE(Current, Index(0)), IdxE(Current, Index(1))),
           C1x("sort", Current),
           C2x("max_by", fA, Ref(fB)),
           C2x("map", Ref(C1x("to_array", Current)), Current),
           Proj(Flat(Current), Identity),
           Proj(IdxE(Current, SliceN(NoneP, NoneP, IntP(-1))), Identity),
           C1x("keys", IdxE(Current, Index(0))),
           VProj(Identity, Identity),
           C1x("to_array", Current),
           Proj(Flat(MSL(<<IdxE(Current, Index(0)), IdxE(Current, Index(1))>>)), Identity),
           Proj(Flat(MSL(<<IdxE(Current, Index(0)), IdxE(Current, Index(2))>>)), Identity) >>
DocsW == << A3(I(3), I(1), I(2)),
            O1(cA, A3(O1(cB, I(3)), O1(cB, I(1)), O1(cB, I(2)))),
            A3(O2(cA, I(2), cB, I(1)), O2(cA, I(1), cC, I(5)), A2(I(2), I(1))),
            O2(cA, A2(I(2), I(1)), cB, A2(S(cB), S(cA))),
            A3(A1(I(1)), A2(I(2), I(3)), I(4)) >>
Pairs2 == {<<p, q>> \in (1..Len(Pool)) \X (1..Len(Pool)) : p <= q}
Src(e) == Render(UnparseMin(e), "tight")
(* two kinds of workload: two expressions on ONE shared document (doc2 absent), and ONE shared compiled expression on
   two different documents (same expression, doc2 present) -- a result that leaks from one goroutine's call into the
   other's shows only in the second kind *)
Shared == {[k |-> "workload", e1 |-> Src(Pool[pq[1]]), e2 |-> Src(Pool[pq[2]]), p |-> pq[1], q |-> pq[2], d |-> d, d2 |-> 0, doc |-> DocsW[d], doc2 |-> <<>>,
            allowed1 |-> Outcomes(Pool[pq[1]], DocsW[d]), allowed2 |-> Outcomes(Pool[pq[2]], DocsW[d])] : pq \in Pairs2, d \in 1..Len(DocsW)}
TwoDocs == {[k |-> "workload", e1 |-> Src(Pool[p]), e2 |-> Src(Pool[p]), p |-> p, q |-> p, d |-> dd[1], d2 |-> dd[2], doc |-> DocsW[dd[1]], doc2 |-> DocsW[dd[2]],
             allowed1 |-> Outcomes(Pool[p], DocsW[dd[1]]), allowed2 |-> Outcomes(Pool[p], DocsW[dd[2]])] :
               p \in 1..Len(Pool), dd \in {x \in (1..Len(DocsW)) \X (1..Len(DocsW)) : x[1] < x[2]}}
Out == SetToSeq(Shared \cup TwoDocs)
ASSUME PrintT(<<"GEN", "workloads", Len(Out)>>) /\ ndJsonSerialize(OutFile, Out)
VARIABLE x
Init == x = 0
Next == x' = x
=============================================================================
