-------------------------------- MODULE LexM --------------------------------
(* lexer.go as an explicit state machine over the fields of the Lexer struct: the decoded expression `src`, the
   read position `k` (runes consumed; the byte position currentPos is Off(src, k)), `lw` (lastWidth: 0 after
   reading at eof, else 1 rune), the token list, and `buf`, the bytes.Buffer of consumeRawStringLiteral that
   LIVES IN THE LEXER OBJECT.  One step per iteration of a loop of the code: the main loop of tokenize(), the
   scanner loops of consumeUnquotedIdentifier / consumeNumber (one rune per step), consumeUntil (one loop
   iteration per step, a backslash skips a rune), consumeRawStringLiteral (one iteration per step, an escaped
   quote flushes a chunk into buf).  next() / back() / peek() are the operators Next1 / Back / peek-by-index.

   Checked by MC_LexM on every string up to a bound:
     Refines      the machine's result (tokens with positions and lengths, or the error and its offset) is
                  Lexer!Lex of the same text (two forms of one specification)
     KInRange     the read position never leaves 0..N (no read past the input; C05)
     Linear       the number of steps is at most 2 N + 2 (every step consumes a rune or ends a scanner; C05)
     TokOrder     token positions are non-decreasing and inside the input (C17)
     BufClean     tokenize() starts with an empty buffer.  This holds because Parser.Parse makes a NEW lexer
                  for every call: an unclosed raw string with an escaped quote leaves the buffer dirty (the
                  code resets it only after a closed one), so with the switch "ReuseLexer" (one lexer object
                  kept by the Parser) a second call returns a raw string prefixed by stale bytes and Refines
                  fails -- the lexer half of C13 (history independence) and C14.
     Terminates   (temporal) every call reaches Done *)
EXTENDS Lexer

VARIABLES src, k, lw, ltoks, buf, mode, aux, res, steps
lvars == <<src, k, lw, ltoks, buf, mode, aux, res, steps>>

EofR == -1
N == NRunes(src)
NoAux == [start |-> 0, ci |-> 0, cur |-> 0, end |-> 0]
LNone == <<"none">>

(* rune returned by next() from position j, and the position / lastWidth afterwards *)
RuneAt(j) == IF j >= N THEN EofR ELSE CP(src, j + 1)
KAfter(j) == IF j >= N THEN j ELSE j + 1
LwAfter(j) == IF j >= N THEN 0 ELSE 1

Emit(t) == ltoks' = Append(ltoks, t)
Fail(r) == /\ res' = r /\ mode' = "done" /\ UNCHANGED <<ltoks, buf, aux>>
ToMain == mode' = "main" /\ aux' = NoAux /\ UNCHANGED res

(* the main loop of tokenize(): r := next(), then the if-chain *)
StepMain ==
  /\ mode = "main"
  /\ LET r == RuneAt(k) k1 == KAfter(k) p == Off(src, k) IN
     IF r = EofR
     THEN /\ k' = k /\ lw' = 0 /\ Emit(LTok("eof", <<>>, Off(src, N), 0))
          /\ res' = <<"ok", ltoks'>> /\ mode' = "done" /\ UNCHANGED <<buf, aux>>
     ELSE IF r < 128 /\ IdStartC(r) THEN
          /\ k' = k1 /\ lw' = 1 /\ mode' = "uid" /\ aux' = [NoAux EXCEPT !.start = k] /\ UNCHANGED <<ltoks, buf, res>>
     ELSE IF Basic(r) # "none" THEN
          /\ k' = k1 /\ lw' = 1 /\ Emit(LTok(Basic(r), <<>>, p, 1)) /\ ToMain /\ UNCHANGED buf
     ELSE IF r = 45 \/ IsDigit(r) THEN
          /\ k' = k1 /\ lw' = 1 /\ mode' = "num" /\ aux' = [NoAux EXCEPT !.start = k] /\ UNCHANGED <<ltoks, buf, res>>
     ELSE IF r = 91 THEN          \* consumeLBracket: next(), and back() unless "[?" or "[]"
          LET n == RuneAt(k1) IN
          /\ IF n = 63 THEN k' = k1 + 1 /\ lw' = 1 /\ Emit(LTok("filter", <<>>, p, 2))
             ELSE IF n = 93 THEN k' = k1 + 1 /\ lw' = 1 /\ Emit(LTok("flatten", <<>>, p, 2))
             ELSE k' = k1 /\ lw' = LwAfter(k1) /\ Emit(LTok("lbracket", <<>>, p, 1))
          /\ ToMain /\ UNCHANGED buf
     ELSE IF r \in {34, 96} THEN  \* consumeUntil(r): start := currentPos; current := next()
          /\ k' = KAfter(k1) /\ lw' = LwAfter(k1) /\ mode' = "until"
          /\ aux' = [NoAux EXCEPT !.start = k1, !.end = r, !.cur = RuneAt(k1)] /\ UNCHANGED <<ltoks, buf, res>>
     ELSE IF r = 39 THEN          \* consumeRawStringLiteral: start, currentIndex := currentPos; current := next()
          /\ k' = KAfter(k1) /\ lw' = LwAfter(k1) /\ mode' = "raw"
          /\ aux' = [NoAux EXCEPT !.start = k1, !.ci = k1, !.cur = RuneAt(k1)] /\ UNCHANGED <<ltoks, buf, res>>
     ELSE IF r \in {124, 60, 62, 33, 61, 38} THEN      \* matchOrElse
          LET second == IF r = 124 THEN 124 ELSE IF r = 38 THEN 38 ELSE 61
              both == CASE r = 124 -> "or" [] r = 60 -> "lte" [] r = 62 -> "gte" [] r = 33 -> "ne" [] r = 61 -> "eq" [] r = 38 -> "and"
              single == CASE r = 124 -> "pipe" [] r = 60 -> "lt" [] r = 62 -> "gt" [] r = 33 -> "not" [] r = 61 -> "unknown" [] r = 38 -> "expref"
          IN /\ IF RuneAt(k1) = second THEN k' = k1 + 1 /\ lw' = 1 /\ Emit(LTok(both, <<>>, p, 2))
                ELSE k' = k1 /\ lw' = LwAfter(k1) /\ Emit(LTok(single, <<>>, p, 1))
             /\ ToMain /\ UNCHANGED buf
     ELSE IF IsWS(r) THEN /\ k' = k1 /\ lw' = 1 /\ UNCHANGED <<ltoks, buf, mode, aux, res>>
     ELSE /\ k' = k1 /\ lw' = 1 /\ Fail(SynErr(Off(src, k1) - 1))

(* consumeUnquotedIdentifier / consumeNumber: r := next(); a rune that does not continue the token is put back *)
StepScan ==
  /\ mode \in {"uid", "num"}
  /\ LET r == RuneAt(k)
         cont == IF mode = "uid" THEN r >= 0 /\ r < 128 /\ IdContC(r) ELSE r >= 0 /\ IsDigit(r) IN
     IF cont THEN k' = k + 1 /\ lw' = 1 /\ UNCHANGED <<ltoks, buf, mode, aux, res>>
     ELSE /\ k' = k /\ lw' = LwAfter(k)        \* next() then back(): the position is unchanged
          /\ LET p == Off(src, aux.start) IN
             Emit(LTok(IF mode = "uid" THEN "uid" ELSE "number", CpsOf(src, aux.start + 1, k), p, Off(src, k) - p))
          /\ ToMain /\ UNCHANGED buf

(* consumeUntil(end): one loop iteration, or the exit with the token of the quoted identifier / literal *)
StepUntil ==
  /\ mode = "until"
  /\ IF aux.cur # aux.end /\ aux.cur # EofR
     THEN LET j == IF aux.cur = 92 /\ k < N THEN k + 1 ELSE k IN     \* a backslash skips the next rune unless at eof
          /\ k' = KAfter(j) /\ lw' = LwAfter(j) /\ aux' = [aux EXCEPT !.cur = RuneAt(j)]
          /\ UNCHANGED <<ltoks, buf, mode, res>>
     ELSE /\ k' = k /\ lw' = lw
          /\ IF lw = 0 THEN Fail(SynErr(Off(src, N)))
             ELSE LET body == CpsOf(src, aux.start + 1, k - 1) IN
                  IF aux.end = 34
                  THEN LET dec == JsonUnescape(body) IN
                       IF dec[1] = "bad" THEN Fail(<<"othererr">>)
                       ELSE IF dec[1] = "unmodelled" THEN Fail(<<"unmodelled">>)
                       ELSE Emit(LTok("qid", dec[2], Off(src, aux.start) - 1, ByteLen(dec[2]))) /\ ToMain /\ UNCHANGED buf
                  ELSE LET v == UnescapeBacktick(body) IN
                       Emit(LTok("jsonlit", v, Off(src, aux.start), ByteLen(v))) /\ ToMain /\ UNCHANGED buf

(* consumeRawStringLiteral: `for current != '\'' && peek() != eof` -- peek() at eof sets lastWidth to 0 *)
StepRaw ==
  /\ mode = "raw"
  /\ IF aux.cur # 39 /\ k < N
     THEN IF aux.cur = 92 /\ CP(src, k + 1) = 39
          THEN \* an escaped quote: flush the chunk before the backslash and a quote into buf, skip the quote
               LET k2 == k + 1 IN
               /\ buf' = buf \o CpsOf(src, aux.ci + 1, k - 1) \o <<39>>
               /\ k' = KAfter(k2) /\ lw' = LwAfter(k2) /\ aux' = [aux EXCEPT !.ci = k2, !.cur = RuneAt(k2)]
               /\ UNCHANGED <<ltoks, mode, res>>
          ELSE /\ k' = k + 1 /\ lw' = 1 /\ aux' = [aux EXCEPT !.cur = CP(src, k + 1)] /\ UNCHANGED <<ltoks, buf, mode, res>>
     ELSE LET lw2 == IF aux.cur # 39 THEN 0 ELSE lw IN
          /\ k' = k /\ lw' = lw2
          /\ IF lw2 = 0 THEN Fail(SynErr(Off(src, N)))          \* NOTE: buf keeps whatever was flushed
             ELSE LET v == IF aux.ci < k THEN buf \o CpsOf(src, aux.ci + 1, k - 1) ELSE buf IN
                  /\ Emit(LTok("strlit", v, Off(src, aux.start), ByteLen(v))) /\ buf' = <<>> /\ ToMain

LStep == /\ mode # "done" /\ mode # "idle"
         /\ (StepMain \/ StepScan \/ StepUntil \/ StepRaw)
         /\ steps' = steps + 1 /\ UNCHANGED src
(* tokenize(text) on the lexer of Parser.Parse: a new Lexer for every call (unless "ReuseLexer") *)
LStartOn(text) == /\ src' = DecodeSrc(text) /\ k' = 0 /\ lw' = 0 /\ ltoks' = <<>> /\ mode' = "main" /\ aux' = NoAux
                  /\ res' = LNone /\ steps' = 0
                  /\ buf' = IF "ReuseLexer" \in Dev THEN buf ELSE <<>>
LDone == mode = "done"

KInRange == k \in 0..N /\ lw \in {0, 1}
Linear == steps <= 2 * N + 2
TokOrder == /\ \A i \in 1..Len(ltoks) : ltoks[i][3] \in 0..Off(src, N)
            /\ \A i \in 1..(Len(ltoks) - 1) : ltoks[i][3] <= ltoks[i + 1][3]
BufClean == (mode = "main" /\ steps = 0) => buf = <<>>
=============================================================================
