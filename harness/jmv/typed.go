package main

// jmv typed: C18 -- documents made of Go structs, pointers and typed slices. The typed documents are
// described by the specification (GoValues.tla) and materialised here as values of real Go types; the
// result of Search is normalised through encoding/json (struct field names lower-cased like the JSON form
// J(g) of the specification) and compared with the outcome set computed on J(g).

import (
	"bufio"
	"encoding/json"
	"flag"
	"fmt"
	"os"
	"reflect"
	"strings"
	"unicode"
	"unicode/utf8"

	jmespath "github.com/jmespath/go-jmespath"
)

// The two struct types of GoValues.tla.
type Inner struct {
	A  float64
	B  string
	C  []string
	Él string
}
type Outer struct {
	A Inner
	B *Inner
	C []Inner
	D []*Inner
	E []float64
	F []string
	G bool
	H string
}

// Emb and EmbP embed Inner by value and by pointer: its fields are promoted (GoValues.tla lists them flat).
type Emb struct {
	Inner
	Z float64
}
type EmbP struct {
	*Inner
	Z float64
}

var goTypes = map[string]reflect.Type{"Inner": reflect.TypeOf(Inner{}), "Outer": reflect.TypeOf(Outer{}), "Emb": reflect.TypeOf(Emb{}), "EmbP": reflect.TypeOf(EmbP{})}

func elemType(name string) reflect.Type {
	switch name {
	case "string":
		return reflect.TypeOf("")
	case "float64":
		return reflect.TypeOf(float64(0))
	}
	if name[0] == '*' {
		return reflect.PtrTo(goTypes[name[1:]])
	}
	return goTypes[name]
}

// materialise builds the Go value described by a GoValues.tla descriptor.
func materialise(d interface{}) reflect.Value {
	a := d.([]interface{})
	switch a[0].(string) {
	case "gstruct":
		t := goTypes[a[1].(string)]
		v := reflect.New(t).Elem()
		for i := 0; i < t.NumField(); i++ { // an embedded pointer is allocated before its promoted fields are set
			if f := t.Field(i); f.Anonymous && f.Type.Kind() == reflect.Ptr {
				v.Field(i).Set(reflect.New(f.Type.Elem()))
			}
		}
		for _, f := range a[2].([]interface{}) {
			p := f.([]interface{})
			v.FieldByName(cpsToString(p[0])).Set(materialise(p[1]))
		}
		return v
	case "gptr":
		inner := materialise(a[2])
		p := reflect.New(inner.Type())
		p.Elem().Set(inner)
		return p
	case "gnil":
		return reflect.Zero(reflect.PtrTo(goTypes[a[1].(string)]))
	case "gslice":
		et := elemType(a[1].(string))
		xs := a[2].([]interface{})
		s := reflect.MakeSlice(reflect.SliceOf(et), 0, len(xs))
		for _, x := range xs {
			s = reflect.Append(s, materialise(x))
		}
		return s
	}
	return reflect.ValueOf(decodeValue(d))
}

func lowerKeys(v interface{}) interface{} {
	switch t := v.(type) {
	case []interface{}:
		for i := range t {
			t[i] = lowerKeys(t[i])
		}
		return t
	case map[string]interface{}:
		out := map[string]interface{}{}
		for k, x := range t {
			r, n := utf8.DecodeRuneInString(k)
			out[string(unicode.ToLower(r))+k[n:]] = lowerKeys(x)
		}
		return out
	}
	return v
}

func cmdTyped(args []string) int {
	fs := flag.NewFlagSet("typed", flag.ExitOnError)
	out := fs.String("out", "", "summary (JSON)")
	canary := fs.Int("canary-every", 0, "corrupt every N-th observation")
	fs.Parse(args)
	type viol struct {
		Cat      string      `json:"cat"`
		Tool     string      `json:"tool"`
		ID       int         `json:"id"`
		Src      string      `json:"src"`
		Doc      interface{} `json:"doc"`
		Allowed  interface{} `json:"allowed"`
		Observed string      `json:"observed"`
		Rec      interface{} `json:"rec"`
		Pools    interface{} `json:"pools"`
		Tag      string      `json:"tag,omitempty"`
	}
	sum := struct {
		Cases       int            `json:"cases"`
		Evaluations int            `json:"evaluations"`
		Nontrivial  int            `json:"distinct_nontrivial"`
		Counts      map[string]int `json:"violation_counts"`
		Violations  []viol         `json:"violations"`
		Samples     []interface{}  `json:"samples"`
		CanariesIn  int            `json:"canaries_injected"`
		CanariesHit int            `json:"canaries_caught"`
	}{Counts: map[string]int{}}
	calls := 0
	per := map[string]int{}
	for _, fn := range fs.Args() {
		f, err := os.Open(fn)
		if err != nil {
			fmt.Fprintln(os.Stderr, err)
			return 2
		}
		sc := bufio.NewScanner(f)
		sc.Buffer(make([]byte, 1<<24), 1<<24)
		var typed []interface{}
		var jdocs []interface{}
		var poolsRaw interface{}
		fam := ""
		for sc.Scan() {
			var raw map[string]interface{}
			if err := json.Unmarshal(sc.Bytes(), &raw); err != nil {
				fmt.Fprintln(os.Stderr, fn, err)
				return 2
			}
			if raw["k"] == "docs" {
				typed = raw["typed"].([]interface{})
				jdocs = raw["docs"].([]interface{})
				fam = raw["fam"].(string)
				poolsRaw = raw
				continue
			}
			var c caseRec
			json.Unmarshal(sc.Bytes(), &c)
			sum.Cases++
			src := cpsToString(c.Srcs[0])
			for di := range typed {
				doc := materialise(typed[di]).Interface()
				o := direct(func() (interface{}, error) { return jmespath.Search(src, doc) })
				sum.Evaluations++
				calls++
				if o.Kind == "ok" {
					// normalise through encoding/json, as a caller would serialise the result
					b, err := json.Marshal(o.Value)
					if err != nil {
						o = Obs{Kind: "ok", Value: fmt.Sprintf("<unserialisable %T>", o.Value)}
					} else {
						var v interface{}
						json.Unmarshal(b, &v)
						o.Value = lowerKeys(v)
					}
				}
				allowed := c.Allowed[di]
				isCanary := false
				if *canary > 0 && calls%*canary == 0 && o.Kind == "ok" && !strings.Contains(mustJSON(allowed), "unspec") {
					o = Obs{Kind: "ok", Value: "☃canary"}
					isCanary = true
					sum.CanariesIn++
				}
				m, _ := matchOutcome(o, allowed, false)
				if !m {
					if isCanary {
						sum.CanariesHit++
						continue
					}
					cat := "typed-outcome"
					if o.Kind == "panic" {
						cat = "typed-panic"
					}
					sum.Counts[cat]++
					key := fmt.Sprint(cat, c.ID)
					if per[key] < 2 && len(sum.Violations) < 400 {
						per[key]++
						rec := map[string]interface{}{"k": "case", "id": c.ID, "n": c.N, "srcs": c.Srcs, "allowed": c.Allowed}
						sum.Violations = append(sum.Violations, viol{Cat: cat, Tool: "typed", ID: c.ID, Src: src, Doc: jdocs[di], Allowed: allowed,
							Observed: fmt.Sprintf("typed document %d (%T): %s", di+1, doc, o.String()), Rec: rec, Pools: poolsRaw, Tag: fam})
					}
				}
				if !isTrivialAllowed(allowed) && c.N >= 2 {
					sum.Nontrivial++
				}
				if len(sum.Samples) < 5 && calls%331 == 0 {
					sum.Samples = append(sum.Samples, map[string]interface{}{"expression": src, "go_document_type": fmt.Sprintf("%T", doc), "json_form": json.RawMessage(mustJSON(decodeValue(jdocs[di]))), "observed": o.String()})
				}
			}
		}
		f.Close()
	}
	b, _ := json.MarshalIndent(sum, "", " ")
	if *out != "" {
		os.WriteFile(*out, b, 0o644)
	} else {
		fmt.Println(string(b))
	}
	return 0
}
