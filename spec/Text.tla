-------------------------------- MODULE Text --------------------------------
(* The whole compile pipeline on source text:  bytes -> runes -> tokens (Lexer) -> parser tokens
   (numbers converted, JSON literals decoded) -> AST (Parser), as Compile / Parser.Parse do it
   (C04, C05, C14, C17).

     CompileModel(text) =  <<"ok", ast>>
                           <<"err", "syntax", offset>>    a SyntaxError with that byte offset
                           <<"err", "other", -1>>         another error (strconv / encoding/json)
                           <<"unmodelled">>               outside the modelled part of encoding/json / int64
                           <<"panic">>                    only behind Dev

   JSON decoding of a literal's text is a small recursive-descent recogniser for the JSON grammar
   (values, arrays, objects, strings with escapes, integers and decimals; exponents and the exact
   float arithmetic of encoding/json are unmodelled). *)
EXTENDS Parser

(* ---- numbers -------------------------------------------------------------------------------- *)
AllDigits(s) == s # <<>> /\ \A i \in 1..Len(s) : IsDigit(s[i])
RECURSIVE StripZeros(_)
StripZeros(s) == IF Len(s) > 1 /\ s[1] = 48 THEN StripZeros(Tail(s)) ELSE s
(* strconv.Atoi on the text of a number token: <<"int", n>>, <<"huge", sign, k>>, <<"bad">> or <<"unmodelled">> *)
AtoiModel(s) ==
  LET neg == s # <<>> /\ s[1] = 45
      body == IF neg THEN Tail(s) ELSE s IN
  IF ~AllDigits(body) THEN <<"bad">>
  ELSE LET d == StripZeros(body) IN
       IF Len(d) <= 9 THEN <<"int", IF neg THEN -DigitsVal(d) ELSE DigitsVal(d)>>
       ELSE IF \E k \in 1..Len(HugeTable) : HugeTable[k] = d
            THEN LET k == CHOOSE kk \in 1..Len(HugeTable) : HugeTable[kk] = d IN
                 IF k = 5 /\ ~neg THEN <<"bad">> ELSE <<"huge", IF neg THEN -1 ELSE 1, k>>     \* 2^63 itself does not fit
       ELSE IF Len(d) > 19 THEN <<"bad">>
       ELSE <<"unmodelled">>

(* ---- JSON text -> value --------------------------------------------------------------------- *)
JWs(c) == c \in {32, 9, 10, 13}
RECURSIVE JSkip(_, _)
JSkip(s, i) == IF i <= Len(s) /\ JWs(s[i]) THEN JSkip(s, i + 1) ELSE i
HasAt(s, i, w) == i + Len(w) - 1 <= Len(s) /\ SubSeq(s, i, i + Len(w) - 1) = w
RECURSIVE JDigitsEnd(_, _)
JDigitsEnd(s, i) == IF i <= Len(s) /\ IsDigit(s[i]) THEN JDigitsEnd(s, i + 1) ELSE i
(* end index (exclusive) of the string body starting at i (after the opening quote), or 0 *)
RECURSIVE JStrEnd(_, _)
JStrEnd(s, i) == IF i > Len(s) THEN 0 ELSE IF s[i] = 34 THEN i ELSE IF s[i] = 92 THEN (IF i + 1 > Len(s) THEN 0 ELSE JStrEnd(s, i + 2)) ELSE JStrEnd(s, i + 1)

JOk(v, i) == <<"ok", v, i>>
JBad == <<"bad", <<>>, 0>>
JUnm == <<"unmodelled", <<>>, 0>>
RECURSIVE JValue(_, _), JArr(_, _, _), JObj(_, _, _)
(* parse one value starting at s[i] (leading whitespace skipped); result <<"ok", value, next>> *)
JValue(s, i0) ==
  LET i == JSkip(s, i0) IN
  IF i > Len(s) THEN JBad
  ELSE LET c == s[i] IN
  IF HasAt(s, i, <<110, 117, 108, 108>>) THEN JOk(Null, i + 4)
  ELSE IF HasAt(s, i, <<116, 114, 117, 101>>) THEN JOk(Bool(TRUE), i + 4)
  ELSE IF HasAt(s, i, <<102, 97, 108, 115, 101>>) THEN JOk(Bool(FALSE), i + 5)
  ELSE IF c = 34 THEN
       LET e == JStrEnd(s, i + 1) IN
       IF e = 0 THEN JBad
       ELSE LET u == JsonUnescape(SubSeq(s, i + 1, e - 1)) IN
            IF u[1] = "ok" THEN JOk(Str(u[2]), e + 1) ELSE IF u[1] = "unmodelled" THEN JUnm ELSE JBad
  ELSE IF c = 45 \/ IsDigit(c) THEN
       LET neg == c = 45
           a == IF neg THEN i + 1 ELSE i
           b == JDigitsEnd(s, a)
           ip == SubSeq(s, a, b - 1)
           hasFrac == b <= Len(s) /\ s[b] = 46
           fe == IF hasFrac THEN JDigitsEnd(s, b + 1) ELSE b
           fp == IF hasFrac THEN SubSeq(s, b + 1, fe - 1) ELSE <<>>
       IN IF ip = <<>> \/ (Len(ip) > 1 /\ ip[1] = 48) \/ (hasFrac /\ fp = <<>>) THEN JBad
          ELSE IF fe <= Len(s) /\ s[fe] \in {101, 69} THEN JUnm
          ELSE IF Len(ip) > 6 \/ Len(fp) > 3 THEN JUnm
          ELSE LET mag == Num(DigitsVal(ip) * Pow10(Len(fp)) + (IF fp = <<>> THEN 0 ELSE DigitsVal(fp)), Pow10(Len(fp))) IN
               JOk(IF neg THEN Num(-mag[2], mag[3]) ELSE mag, fe)
  ELSE IF c = 91 THEN
       LET j == JSkip(s, i + 1) IN
       IF j <= Len(s) /\ s[j] = 93 THEN JOk(Arr(<<>>), j + 1) ELSE JArr(s, i + 1, <<>>)
  ELSE IF c = 123 THEN
       LET j == JSkip(s, i + 1) IN
       IF j <= Len(s) /\ s[j] = 125 THEN JOk(Obj({}), j + 1) ELSE JObj(s, i + 1, {})
  ELSE JBad
JArr(s, i, acc) ==
  LET v == JValue(s, i) IN
  IF v[1] # "ok" THEN v
  ELSE LET j == JSkip(s, v[3]) IN
       IF j > Len(s) THEN JBad
       ELSE IF s[j] = 44 THEN JArr(s, j + 1, Append(acc, v[2]))
       ELSE IF s[j] = 93 THEN JOk(Arr(Append(acc, v[2])), j + 1)
       ELSE JBad
JObj(s, i, acc) ==
  LET k == JValue(s, i) IN
  IF k[1] # "ok" THEN k
  ELSE IF k[2][1] # "str" THEN JBad
  ELSE LET j == JSkip(s, k[3]) IN
       IF j > Len(s) \/ s[j] # 58 THEN JBad
       ELSE LET v == JValue(s, j + 1) IN
            IF v[1] # "ok" THEN v
            ELSE LET acc2 == {kv \in acc : kv[1] # k[2][2]} \cup {<<k[2][2], v[2]>>}       \* a later duplicate key wins
                     m == JSkip(s, v[3]) IN
                 IF m > Len(s) THEN JBad
                 ELSE IF s[m] = 44 THEN JObj(s, m + 1, acc2)
                 ELSE IF s[m] = 125 THEN JOk(Obj(acc2), m + 1)
                 ELSE JBad
(* json.Unmarshal of a complete text: the value must be followed only by whitespace *)
JsonParse(s) == LET v == JValue(s, 1) IN
                IF v[1] # "ok" THEN <<v[1]>> ELSE IF JSkip(s, v[3]) = Len(s) + 1 THEN <<"ok", v[2]>> ELSE <<"bad">>

(* ---- lexer tokens -> parser tokens ----------------------------------------------------------- *)
ToPTok(lt) == CASE lt[1] = "number" -> (LET a == AtoiModel(lt[2]) IN
                                        IF a[1] = "int" THEN <<"number", a[2]>> ELSE <<"number", 0, a>>)   \* huge / bad / unmodelled
                [] lt[1] = "jsonlit" -> (LET j == JsonParse(lt[2]) IN IF j[1] = "ok" THEN <<"jsonlit", j[2]>> ELSE <<"jsonlit", Null, j>>)
                [] OTHER -> <<lt[1], lt[2]>>

CompileModel(text) ==
  LET lx == Lex(text) IN
  IF lx[1] = "panic" THEN <<"panic">>
  ELSE IF lx[1] = "unmodelled" THEN <<"unmodelled">>
  ELSE IF lx[1] = "syntax" THEN <<"err", "syntax", lx[2]>>
  ELSE IF lx[1] = "othererr" THEN <<"err", "other", -1>>
  ELSE LET lts == lx[2]
           pr == Parse([i \in 1..Len(lts) |-> ToPTok(lts[i])])
       IN IF pr[1] = "ok" THEN <<"ok", pr[2]>>
          ELSE IF pr[1] = "err" THEN <<"err", "syntax", lts[pr[2]][3]>>
          ELSE IF pr[1] = "other" THEN <<"err", "other", -1>>
          ELSE <<pr[1]>>
=============================================================================
