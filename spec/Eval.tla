------------------------------- MODULE Eval -------------------------------
(* Relational big-step semantics of JMESPath: Outcomes(ast, value) is the SET of outcomes the
   JMESPath documents allow for evaluating ast against value (a set, because the iteration order
   of object members is unspecified).  One CASE arm per AST node kind, in the order of the
   implementation's Execute switch, written in the error monad: an error of any sub-expression that
   is evaluated is the outcome of the whole (C11).

   Properties stated on this module: C01, C02, C07, C09, C10, C11, C15, C16 (see MC_Eval.tla). *)
EXTENDS Builtins

(* an index beyond TLC's integers is written <<"Index", 0, <<"huge", sign, k>>>>; it is out of range of every array *)
HugeIndex(sign, k) == <<"Index", 0, HugeP(sign, k)>>
RECURSIVE Outcomes(_, _), MapOut(_, _), EvEach(_, _), FilterOut(_, _, _), CallFn(_, _)

(* apply r to every element, left to right; raw results (nulls kept); error-strict *)
MapOut(r, xs) ==
  IF xs = <<>> THEN OkS(<<>>)
  ELSE Bind(Outcomes(r, Head(xs)), LAMBDA h : Bind(MapOut(r, Tail(xs)), LAMBDA t : OkS(<<h>> \o t)))

(* evaluate a sequence of expressions against the same current node *)
EvEach(es, v) ==
  IF es = <<>> THEN OkS(<<>>)
  ELSE Bind(Outcomes(Head(es), v), LAMBDA h : Bind(EvEach(Tail(es), v), LAMBDA t : OkS(<<h>> \o t)))

DropNull(xs) == SelectSeq(xs, LAMBDA x : x[1] # "null")

(* filter projection: per element the condition, and the right-hand side only for true-like ones *)
FilterOut(cond, r, xs) ==
  IF xs = <<>> THEN OkS(<<>>)
  ELSE Bind(Outcomes(cond, Head(xs)), LAMBDA c :
         IF IsFalse(c) THEN FilterOut(cond, r, Tail(xs))
         ELSE Bind(Outcomes(r, Head(xs)), LAMBDA h : Bind(FilterOut(cond, r, Tail(xs)), LAMBDA t : OkS(<<h>> \o t))))

(* flatten merges exactly one level *)
RECURSIVE FlattenOnce(_)
FlattenOnce(xs) == IF xs = <<>> THEN <<>>
                   ELSE (IF Head(xs)[1] = "arr" THEN Head(xs)[2] ELSE <<Head(xs)>>) \o FlattenOnce(Tail(xs))

(* comparators: == / != deep equality on every type; ordering only on two numbers, else null *)
Compare(op, l, r) ==
  IF op \in {"eq", "ne"}
  THEN IF HasOpaque(l) \/ HasOpaque(r) THEN {UNSPEC}
       ELSE OkS(Bool(IF op = "eq" THEN DeepEq(l, r) ELSE ~DeepEq(l, r)))
  ELSE IF l[1] = "num" /\ r[1] = "num"
       THEN OkS(Bool(CASE op = "lt" -> NumLess(l, r) [] op = "lte" -> ~NumLess(r, l)
                       [] op = "gt" -> NumLess(r, l) [] op = "gte" -> ~NumLess(l, r)))
       ELSE OkS(Null)

(* object from parallel key / value sequences; a later duplicate key wins *)
RECURSIVE LastWins(_, _)
LastWins(ks, vs) ==
  IF ks = <<>> THEN {}
  ELSE LET n == Len(ks) rest == LastWins(SubSeq(ks, 1, n - 1), SubSeq(vs, 1, n - 1)) IN
       {kv \in rest : kv[1] # ks[n]} \cup {<<ks[n], vs[n]>>}

(* left operand of a construct whose implementation once swallowed the error (negative control) *)
LeftOf(e, v, swallow) ==
  IF swallow /\ "SwallowLeftError" \in Dev
  THEN {IF o[1] = "ok" THEN o ELSE Ok(Null) : o \in Outcomes(e, v)}
  ELSE Outcomes(e, v)

Outcomes(e, v) ==
  LET k == e[1] IN
  CASE k = "Comparator" -> Bind(Outcomes(e[3], v), LAMBDA l : Bind(Outcomes(e[4], v), LAMBDA r : Compare(e[2], l, r)))
    [] k = "ExpRef" -> OkS(ExpRef(e[2]))
    [] k = "FunctionExpression" -> Bind(EvEach(e[3], v), LAMBDA args : CallFn(FnOf(e[2]), args))
    [] k = "Field" -> OkS(IF v[1] = "obj" THEN Lookup(v, e[2]) ELSE Null)
    [] k = "FilterProjection" -> Bind(LeftOf(e[2], v, TRUE), LAMBDA l :
                             IF l[1] = "arr" THEN Bind(FilterOut(e[4], e[3], l[2]), LAMBDA rs : OkS(Arr(DropNull(rs))))
                             ELSE OkS(Null))
    [] k = "Flatten" -> Bind(LeftOf(e[2], v, TRUE), LAMBDA l : IF l[1] = "arr" THEN OkS(Arr(FlattenOnce(l[2]))) ELSE OkS(Null))
    [] k \in {"Identity", "CurrentNode"} -> OkS(v)
    [] k = "Index" -> OkS(IF v[1] = "arr" /\ Len(e) = 2
                          THEN LET n == Len(v[2]) i == IF e[2] < 0 THEN e[2] + n ELSE e[2] IN
                               IF i >= 0 /\ i < n THEN v[2][i + 1] ELSE Null
                          ELSE Null)
    [] k = "KeyValPair" -> Outcomes(e[3], v)
    [] k = "Literal" -> OkS(e[2])
    [] k = "MultiSelectHash" -> IF v[1] = "null" THEN OkS(Null)
                                ELSE Bind(EvEach(e[2], v), LAMBDA xs :
                                       OkS(Obj(LastWins([i \in 1..Len(e[2]) |-> e[2][i][2]], xs))))
    [] k = "MultiSelectList" -> IF v[1] = "null" THEN OkS(Null)
                                ELSE Bind(EvEach(e[2], v), LAMBDA xs : OkS(Arr(xs)))
    [] k = "OrExpression" -> Bind(Outcomes(e[2], v), LAMBDA l : IF IsFalse(l) THEN Outcomes(e[3], v) ELSE OkS(l))
    [] k = "AndExpression" -> Bind(Outcomes(e[2], v), LAMBDA l : IF IsFalse(l) THEN OkS(l) ELSE Outcomes(e[3], v))
    [] k = "NotExpression" -> Bind(Outcomes(e[2], v), LAMBDA l : OkS(Bool(IsFalse(l))))
    [] k \in {"Subexpression", "IndexExpression", "Pipe"} -> Bind(Outcomes(e[2], v), LAMBDA l : Outcomes(e[3], l))
    [] k = "Projection" -> Bind(Outcomes(e[2], v), LAMBDA l :
                             IF l[1] = "arr" THEN Bind(MapOut(e[3], l[2]), LAMBDA rs : OkS(Arr(DropNull(rs))))
                             ELSE OkS(Null))
    [] k = "Slice" -> IF v[1] = "arr"
                      THEN IF HasP(e[2][3]) /\ PV(e[2][3], Len(v[2])) = 0 THEN ErrS ELSE OkS(Arr(PySlice(v[2], e[2])))
                      ELSE OkS(Null)
    [] k = "ValueProjection" -> Bind(LeftOf(e[2], v, TRUE), LAMBDA l :
                             IF l[1] = "obj"
                             THEN UNION {Bind(MapOut(e[3], (IF "PresizedWildcard" \in Dev THEN [i \in 1..Len(p) |-> Null] ELSE <<>>)
                                                            \o [i \in 1..Len(p) |-> p[i][2]]),
                                              LAMBDA rs : OkS(Arr(DropNull(rs)))) : p \in Perms(l[2])}
                             ELSE OkS(Null))

(* the four built-ins that evaluate an expression reference once per element, with that element
   as the current node; keys of the _by family must be all numbers or all strings (every element,
   a sole one included) *)
SomeOk(SS) == \E o \in SS : o[1] = "ok"
OkVals(SS) == {o[2] : o \in {p \in SS : p[1] = "ok"}}

(* keys that are opaque text (to_string of a non-string) are strings whose order is not specified *)
KeysOpaque(ks) == \E i \in 1..Len(ks) : ks[i][1] = "jsontext"
KeysStrLike(ks) == \A i \in 1..Len(ks) : IsStrLike(ks[i])
CallFn(name, args) ==
  IF name \notin ByExpr THEN PureCall(name, args)
  ELSE IF ~ArgsOK(name, args) THEN ErrS
  ELSE CASE name = "map" -> Bind(MapOut(args[1][2], args[2][2]), LAMBDA rs : OkS(Arr(rs)))
         [] name = "sort_by" ->
              IF "SkipKeyCheckSingleton" \in Dev /\ Len(args[1][2]) <= 1 THEN OkS(args[1])
              ELSE Bind(MapOut(args[2][2], args[1][2]), LAMBDA ks :
                 IF KeysOpaque(ks) THEN (IF KeysStrLike(ks) THEN {UNSPEC} ELSE ErrS)
                 ELSE IF ~KeysUniform(ks) THEN ErrS
                 ELSE OkS(Arr(LET o == StableOrder(ks, 1..Len(ks)) IN [i \in 1..Len(o) |-> args[1][2][o[i]]])))
         [] name \in {"max_by", "min_by"} ->
              IF "SkipKeyCheckSingleton" \in Dev /\ Len(args[1][2]) = 1 THEN OkS(args[1][2][1])
              ELSE Bind(MapOut(args[2][2], args[1][2]), LAMBDA ks :
                 IF KeysOpaque(ks) THEN (IF KeysStrLike(ks) THEN {UNSPEC} ELSE ErrS)
                 ELSE IF ~KeysUniform(ks) THEN ErrS
                 ELSE IF ks = <<>> THEN OkS(Null)
                 ELSE OkS(args[1][2][ArgBest(ks, LAMBDA x, y : IF name = "max_by" THEN KeyLess(y, x) ELSE KeyLess(x, y))]))

=============================================================================
