------------------------------ MODULE MC_Api ------------------------------
(* Bounded instance of Api.tla: a pool of expressions (including failing searches and sort_by on a
   literal and on the document), a pool of documents, a pool of texts for the reused parser (valid,
   ungrammatical, unlexable), all histories up to MaxCalls calls. *)
EXTENDS Api, ApiPools
View == <<a0, ast, docs, ptoks, pidx, last>>
=============================================================================
