package main

// jmv cli: run the jpgo binary built from /repo on TLC-generated (expression, input, channel) cases (C19).

import (
	"bufio"
	"bytes"
	"encoding/json"
	"flag"
	"fmt"
	"os"
	"os/exec"
	"path/filepath"
	"strings"
	"time"
)

type cliRec struct {
	K       string        `json:"k"`
	ID      int           `json:"id"`
	Expr    []interface{} `json:"expr"`
	Input   []interface{} `json:"input"`
	Chan    string        `json:"chan"`
	Allowed []interface{} `json:"allowed"`
	Expect  string        `json:"expect"`
}

func cmdCli(args []string) int {
	fs := flag.NewFlagSet("cli", flag.ExitOnError)
	out := fs.String("out", "", "summary (JSON)")
	bin := fs.String("jpgo", "", "path of the jpgo binary")
	canary := fs.Int("canary-every", 0, "corrupt the captured stdout of every N-th run")
	fs.Parse(args)
	type viol struct {
		Cat      string      `json:"cat"`
		Tool     string      `json:"tool"`
		ID       int         `json:"id"`
		Src      string      `json:"src"`
		Observed string      `json:"observed"`
		Rec      interface{} `json:"rec"`
	}
	sum := struct {
		Cases       int            `json:"cases"`
		Evaluations int            `json:"evaluations"`
		Nontrivial  int            `json:"distinct_nontrivial"`
		Counts      map[string]int `json:"violation_counts"`
		Violations  []viol         `json:"violations"`
		Samples     []interface{}  `json:"samples"`
		CanariesIn  int            `json:"canaries_injected"`
		CanariesHit int            `json:"canaries_caught"`
	}{Counts: map[string]int{}}
	tmp, _ := os.MkdirTemp("", "jmvcli")
	defer os.RemoveAll(tmp)
	seenPath := map[string]bool{}
	for _, fn := range fs.Args() {
		f, err := os.Open(fn)
		if err != nil {
			fmt.Fprintln(os.Stderr, err)
			return 2
		}
		sc := bufio.NewScanner(f)
		sc.Buffer(make([]byte, 1<<24), 1<<24)
		for sc.Scan() {
			var r cliRec
			if err := json.Unmarshal(sc.Bytes(), &r); err != nil {
				fmt.Fprintln(os.Stderr, fn, err)
				return 2
			}
			var raw interface{}
			json.Unmarshal(sc.Bytes(), &raw)
			sum.Cases++
			expr, input := cpsToString(r.Expr), cpsToString(r.Input)
			var argv []string
			var stdin string
			switch r.Chan {
			case "file":
				p := filepath.Join(tmp, "in.json")
				os.WriteFile(p, []byte(input), 0o644)
				argv = []string{"-input", p, expr}
			case "stdin":
				argv = []string{expr}
				stdin = input
			case "missing":
				argv = []string{"-input", filepath.Join(tmp, "does-not-exist.json"), expr}
			case "noargs":
				argv = []string{}
				stdin = input
			case "twoargs":
				argv = []string{expr, expr}
				stdin = input
			}
			var stdinFile *os.File
			cmd := exec.Command(*bin, argv...)
			cmd.Stdin = strings.NewReader(stdin)
			if r.Chan == "stdin" && sum.Cases%3 == 0 {
				// standard input that is a regular file positioned after a prefix another reader consumed
				p := filepath.Join(tmp, "stdin.dat")
				os.WriteFile(p, []byte("# consumed header\n"+stdin), 0o644)
				if fh, err := os.Open(p); err == nil {
					fh.Seek(int64(len("# consumed header\n")), 0)
					cmd.Stdin = fh
					stdinFile = fh
				}
			}
			var so, se bytes.Buffer
			cmd.Stdout, cmd.Stderr = &so, &se
			done := make(chan error, 1)
			cmd.Start()
			go func() { done <- cmd.Wait() }()
			var werr error
			select {
			case werr = <-done:
			case <-time.After(20 * time.Second):
				cmd.Process.Kill()
				werr = fmt.Errorf("timeout")
			}
			if stdinFile != nil {
				stdinFile.Close()
			}
			sum.Evaluations++
			code := 0
			if werr != nil {
				code = 1
				if ee, ok := werr.(*exec.ExitError); ok {
					code = ee.ExitCode()
				}
			}
			stdout := so.String()
			isCanary := false
			if *canary > 0 && sum.Cases%*canary == 0 && code == 0 && r.Expect == "ok" && !strings.Contains(mustJSON(r.Allowed), "unspec") && !strings.Contains(mustJSON(r.Allowed), "jsontext") {
				stdout = "\"☃canary\"\n"
				isCanary = true
				sum.CanariesIn++
			}
			add := func(cat, obs string) {
				if isCanary {
					sum.CanariesHit++
					return
				}
				sum.Counts[cat]++
				if len(sum.Violations) < 100 {
					sum.Violations = append(sum.Violations, viol{Cat: cat, Tool: "cli", ID: r.ID, Src: fmt.Sprintf("jpgo %q  (input via %s: %q)", expr, r.Chan, input), Observed: obs, Rec: raw})
				}
			}
			crashed := code == 2 && strings.Contains(se.String(), "goroutine ") // Go runtime panic exit status
			switch {
			case crashed:
				add("cli-crash", "jpgo crashed: "+firstLine(se.String()))
			case code != 0 && strings.TrimSpace(stdout) != "":
				add("cli-output-on-failure", fmt.Sprintf("exit %d with standard output %q", code, trunc(stdout)))
			case r.Expect == "fail" && code == 0:
				add("cli-exit", fmt.Sprintf("exit 0 where a failure is required; stdout %q", trunc(stdout)))
			case r.Expect == "ok" && code != 0:
				add("cli-exit", fmt.Sprintf("exit %d where success is required; stderr %q", code, trunc(se.String())))
			case code == 0:
				var v interface{}
				if err := json.Unmarshal([]byte(stdout), &v); err != nil {
					add("cli-stdout", fmt.Sprintf("standard output is not JSON: %q", trunc(stdout)))
				} else if m, _ := matchOutcome(Obs{Kind: "ok", Value: v}, r.Allowed, false); !m {
					add("cli-stdout", fmt.Sprintf("printed %s, not a value the specification allows", trunc(stdout)))
				}
			}
			path := fmt.Sprintf("%s/%s/exit%d", r.Chan, r.Expect, code)
			if !seenPath[path] {
				seenPath[path] = true
			}
			if code == 0 || r.Expect == "fail" {
				sum.Nontrivial++
			}
			if len(sum.Samples) < 5 && sum.Cases%37 == 0 {
				sum.Samples = append(sum.Samples, map[string]interface{}{"argv": argv, "stdin": trunc(stdin), "exit": code, "stdout": trunc(stdout)})
			}
		}
		f.Close()
	}
	b, _ := json.MarshalIndent(sum, "", " ")
	if *out != "" {
		os.WriteFile(*out, b, 0o644)
	} else {
		fmt.Println(string(b))
	}
	return 0
}

func trunc(s string) string {
	if len(s) > 200 {
		return s[:200] + "..."
	}
	return s
}

func firstLine(s string) string {
	if i := strings.IndexByte(s, '\n'); i >= 0 {
		return s[:i]
	}
	return s
}
