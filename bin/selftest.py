#!/usr/bin/env python3
"""Self-test of the machinery against known-bad trees.

  python3 bin/selftest.py fixes [ID ...]    re-introduce each repaired defect (reverse-apply its fix: commit to the
                                            working tree of /repo), run the checks of the properties it breaks, expect
                                            exit 1 with a VIOLATION line, restore /repo.
  python3 bin/selftest.py seeded [ID ...]   apply each kept seeded change /verif/seeded/<id>/patch.diff, run the check of
                                            the property it breaks, expect exit 1, restore /repo.

Nothing is committed in /repo; the working tree is restored with `git checkout -- .` after every change.
Results go to /verif/seeded/RESULTS.json (seeded) and /verif/selftest_fixes.json (fixes).
"""
import json
import os
import subprocess
import sys
import time

ROOT = os.path.dirname(os.path.dirname(os.path.abspath(__file__)))
REPO = "/repo"


def sh(cmd, **kw):
    return subprocess.run(cmd, shell=True, capture_output=True, text=True, **kw)


def clean():
    st = sh("git -C %s status --porcelain" % REPO).stdout.strip()
    return st == ""


def restore():
    sh("git -C %s reset -q --hard HEAD && git -C %s checkout -- . && git -C %s clean -fdq" % (REPO, REPO, REPO))


def run_check(prop, tier="quick", seed="1"):
    t = time.time()
    p = sh("python3 %s/bin/check.py %s %s" % (ROOT, prop, tier), env=dict(os.environ, VERIF_SEED=seed), cwd=ROOT)
    viol = [l for l in p.stdout.splitlines() if l.startswith("VIOLATION")]
    return {"property": prop, "exit": p.returncode, "violations": len(viol), "first": (viol[0][:300] if viol else ""),
            "wall_s": round(time.time() - t, 1), "stderr_tail": p.stderr[-300:] if p.returncode == 2 else ""}


def fixes(ids):
    known = json.load(open(os.path.join(ROOT, "known_findings.json")))
    out = []
    for e in known:
        if e["kind"] != "fixed" or (ids and e["id"] not in ids):
            continue
        assert clean(), "/repo working tree is not clean"
        d = sh("git -C %s show %s --format= -- . ':!verif_hooks.go'" % (REPO, e["commit"])).stdout
        p = subprocess.run(["git", "-C", REPO, "apply", "-R"], input=d, text=True, capture_output=True)
        if p.returncode != 0:
            p = subprocess.run(["git", "-C", REPO, "apply", "-R", "--3way"], input=d, text=True, capture_output=True)
        if p.returncode != 0:
            out.append({"id": e["id"], "error": "cannot reverse-apply: " + p.stderr[:200]})
            restore()
            continue
        try:
            b = sh("cd %s && go build ./... && go test -count=1 . 2>&1 | tail -1" % REPO)
            res = [run_check(pr) for pr in [e["property"]] + e.get("also_properties", [])]
            out.append({"id": e["id"], "what": e["what"][:100], "repo_tests": b.stdout.strip()[-60:], "checks": res})
            print(e["id"], [(r["property"], r["exit"], r["violations"]) for r in res], flush=True)
        finally:
            restore()
        sh("git -C %s reset -q" % REPO)
    json.dump(out, open(os.path.join(ROOT, "selftest_fixes.json"), "w"), indent=1)
    bad = [o for o in out if "error" in o or any(r["exit"] != 1 for r in o["checks"][:1])]
    print("re-introduced defects: %d, detected by the check of their primary property: %d" % (len(out), len(out) - len(bad)))
    return 1 if bad else 0


def seeded(ids):
    base = os.path.join(ROOT, "seeded")
    out = []
    for sid in sorted(os.listdir(base)):
        d = os.path.join(base, sid)
        if not os.path.isdir(d) or (ids and sid not in ids):
            continue
        meta = json.load(open(os.path.join(d, "meta.json")))
        assert clean(), "/repo working tree is not clean"
        p = sh("git -C %s apply %s" % (REPO, os.path.join(d, "patch.diff")))
        if p.returncode != 0:
            out.append({"id": sid, "error": "patch does not apply: " + p.stderr[:200]})
            restore()
            continue
        try:
            b = sh("cd %s && go build ./... && go test -count=1 . 2>&1 | tail -1" % REPO)
            props = meta.get("run_checks") or [meta["property"]]
            res = [run_check(pr) for pr in props]
            out.append({"id": sid, "property": meta["property"], "benign": meta.get("benign", False), "repo_tests": b.stdout.strip()[-60:], "checks": res})
            print(sid, meta["property"], [(r["property"], r["exit"], r["violations"]) for r in res], flush=True)
        finally:
            restore()
    # merge with the results of earlier invocations: an entry is replaced only by a newer run of the same change
    path = os.path.join(base, "RESULTS.json")
    merged = {}
    if os.path.exists(path):
        try:
            merged = {o["id"]: o for o in json.load(open(path))}
        except Exception:
            merged = {}
    for o in out:
        o["run_at"] = time.strftime("%Y-%m-%dT%H:%M:%SZ", time.gmtime())
        merged[o["id"]] = o
    json.dump([merged[k] for k in sorted(merged)], open(path, "w"), indent=1)
    missed = [o["id"] for o in out if not o.get("benign") and ("error" in o or o["checks"][0]["exit"] != 1)]
    alarms = [o["id"] for o in out if o.get("benign") and ("error" in o or any(r["exit"] != 0 for r in o["checks"]))]
    print("seeded: %d run, missed %s, benign alarms %s" % (len(out), missed, alarms))
    return 1 if missed or alarms else 0


if __name__ == "__main__":
    mode = sys.argv[1] if len(sys.argv) > 1 else "fixes"
    sys.exit(fixes(sys.argv[2:]) if mode == "fixes" else seeded(sys.argv[2:]))
