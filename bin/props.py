"""Per-property pipelines: which specification modules are model-checked, which generator families are
replayed against the real code, which recorded traces are validated, and which observation categories
count as a violation of the property."""
import check as C

Q, T = "quick", "thorough"


def eval_family(ctx, family, stride_quick, stride_thorough=1, shards=None, cats=("outcome", "panic"),
                mc=True, mc_stride_quick=None, oneshot=False, module="Gen_Eval", mc_module="MC_Eval",
                extra_constants=None):
    """L1: model-check the family's theorem on the spec; L2: generate the family and replay it."""
    quick = ctx.tier == Q
    stride = stride_quick if quick else stride_thorough
    consts = dict(extra_constants or {})
    if mc:
        mstride = (mc_stride_quick or stride_quick) if quick else max(1, stride_thorough)
        c = {"Dev": "{}", "Tier": ctx.tier, "Family": family, "NBlocks": 64, "Stride": mstride, "Seed": ctx.seed}
        c.update(consts)
        C.model_check(ctx, mc_module, c, invariants=["Holds"], spec="Spec", name="%s_%s" % (mc_module, family),
                      extra_cfg=["VIEW View"], workers=C.NCPU, timeout=3000)
    files = C.generate(ctx, module, family, consts, shards or (8 if quick else 16), stride=stride,
                       timeout=3000)
    C.replay(ctx, files, set(cats), oneshot=oneshot)
    ctx.bounds[family] = {"stride": stride, "exhaustive": stride == 1}


def c01(ctx):
    ctx.rule = ("cases = every expression of the bounded core universe (Families.tla, family C01: leaves x 14 "
                "schemas, two levels) x every document of DocsCore, each in 3 spellings; a case is non-trivial when "
                "its allowed set is not {ok null} and the expression has >= 2 nodes; distinct by (source text, document)")
    eval_family(ctx, "C01", stride_quick=12, stride_thorough=1)
    ctx.exhaustive = ctx.tier == T


PIPELINES = {
    "C01": c01,
}
