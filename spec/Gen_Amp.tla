------------------------------ MODULE Gen_Amp ------------------------------
(* Size amplification patterns for C05: every nestable or chainable production of the grammar as
   (prefix, left unit, core, right unit, suffix) token sequences; the harness renders
   prefix left^n core right^n suffix for n = 10, 1000 and up to the 64 KiB limit and checks that Compile and
   Search return (value or error) within a budget linear in the input size.  For small n the specification
   also gives the outcome (the patterns are sentences of the grammar for every n). *)
EXTENDS Text, Json
CONSTANT OutFile
a == <<"uid", <<97>>>>
Pats == <<
  [name |-> "parentheses", pre |-> <<>>, left |-> <<T("lparen")>>, core |-> <<a>>, right |-> <<T("rparen")>>, post |-> <<>>],
  [name |-> "not", pre |-> <<>>, left |-> <<T("not")>>, core |-> <<a>>, right |-> <<>>, post |-> <<>>],
  [name |-> "expref", pre |-> <<<<"uid", <<116, 121, 112, 101>>>>, T("lparen")>>, left |-> <<T("expref")>>, core |-> <<a>>, right |-> <<>>, post |-> <<T("rparen")>>],
  [name |-> "multi-select list", pre |-> <<>>, left |-> <<T("lbracket")>>, core |-> <<a>>, right |-> <<T("rbracket")>>, post |-> <<>>],
  [name |-> "multi-select hash", pre |-> <<>>, left |-> <<T("lbrace"), a, T("colon")>>, core |-> <<a>>, right |-> <<T("rbrace")>>, post |-> <<>>],
  [name |-> "function call", pre |-> <<>>, left |-> <<<<"uid", <<116, 111, 95, 97, 114, 114, 97, 121>>>>, T("lparen")>>, core |-> <<a>>, right |-> <<T("rparen")>>, post |-> <<>>],
  [name |-> "filter", pre |-> <<a>>, left |-> <<T("filter")>>, core |-> <<a>>, right |-> <<T("rbracket")>>, post |-> <<>>],
  [name |-> "sub-expression chain", pre |-> <<>>, left |-> <<>>, core |-> <<a>>, right |-> <<T("dot"), a>>, post |-> <<>>],
  [name |-> "or chain", pre |-> <<>>, left |-> <<>>, core |-> <<a>>, right |-> <<T("or"), a>>, post |-> <<>>],
  [name |-> "and chain", pre |-> <<>>, left |-> <<>>, core |-> <<a>>, right |-> <<T("and"), a>>, post |-> <<>>],
  [name |-> "comparator chain", pre |-> <<>>, left |-> <<>>, core |-> <<a>>, right |-> <<T("lt"), a>>, post |-> <<>>],
  [name |-> "pipe chain", pre |-> <<>>, left |-> <<>>, core |-> <<a>>, right |-> <<T("pipe"), a>>, post |-> <<>>],
  [name |-> "index chain", pre |-> <<>>, left |-> <<>>, core |-> <<a>>, right |-> <<T("lbracket"), <<"number", 0>>, T("rbracket")>>, post |-> <<>>],
  [name |-> "flatten chain", pre |-> <<>>, left |-> <<>>, core |-> <<a>>, right |-> <<T("flatten")>>, post |-> <<>>],
  [name |-> "list projection chain", pre |-> <<>>, left |-> <<>>, core |-> <<a>>, right |-> <<T("lbracket"), T("star"), T("rbracket")>>, post |-> <<>>],
  [name |-> "object projection chain", pre |-> <<>>, left |-> <<>>, core |-> <<a>>, right |-> <<T("dot"), T("star")>>, post |-> <<>>],
  [name |-> "slice chain", pre |-> <<>>, left |-> <<>>, core |-> <<a>>, right |-> <<T("lbracket"), T("colon"), T("colon"), <<"number", -1>>, T("rbracket")>>, post |-> <<>>],
  [name |-> "multi-select width", pre |-> <<T("lbracket")>>, left |-> <<>>, core |-> <<a>>, right |-> <<T("comma"), a>>, post |-> <<T("rbracket")>>],
  [name |-> "argument width", pre |-> <<<<"uid", <<110, 111, 116, 95, 110, 117, 108, 108>>>>, T("lparen")>>, left |-> <<>>, core |-> <<a>>, right |-> <<T("comma"), a>>, post |-> <<T("rparen")>>],
  [name |-> "right-nested or", pre |-> <<>>, left |-> <<a, T("or"), T("lparen")>>, core |-> <<a>>, right |-> <<T("rparen")>>, post |-> <<>>],
  [name |-> "right-nested and", pre |-> <<>>, left |-> <<a, T("and"), T("lparen")>>, core |-> <<a>>, right |-> <<T("rparen")>>, post |-> <<>>],
  [name |-> "right-nested or of missing fields", pre |-> <<>>, left |-> <<<<"uid", <<122>>>>, T("or"), T("lparen")>>, core |-> <<<<"uid", <<122>>>>>>, right |-> <<T("rparen")>>, post |-> <<>>],
  [name |-> "right-nested pipe", pre |-> <<>>, left |-> <<T("current"), T("pipe"), T("lparen")>>, core |-> <<a>>, right |-> <<T("rparen")>>, post |-> <<>>],
  [name |-> "right-nested comparator", pre |-> <<>>, left |-> <<a, T("eq"), T("lparen")>>, core |-> <<a>>, right |-> <<T("rparen")>>, post |-> <<>>],
  [name |-> "nested not-or", pre |-> <<>>, left |-> <<T("not"), T("lparen"), a, T("or")>>, core |-> <<a>>, right |-> <<T("rparen")>>, post |-> <<>>],
  [name |-> "unbalanced open", pre |-> <<>>, left |-> <<T("lparen")>>, core |-> <<a>>, right |-> <<>>, post |-> <<>>],
  [name |-> "unbalanced brackets", pre |-> <<>>, left |-> <<T("lbracket")>>, core |-> <<>>, right |-> <<>>, post |-> <<>>] >>
RECURSIVE Rep(_, _)
Rep(x, k) == IF k = 0 THEN <<>> ELSE x \o Rep(x, k - 1)
Inst(p, k) == p.pre \o Rep(p.left, k) \o p.core \o Rep(p.right, k) \o p.post
Doc == Obj({<<<<97>>, Arr(<<Obj({<<<<97>>, IntV(1)>>}), IntV(2)>>)>>})
Rec(p) == [k |-> "amp", name |-> p.name, pre |-> Render(p.pre, "tight"), left |-> Render(p.left, "tight"), core |-> Render(p.core, "tight"),
           right |-> Render(p.right, "tight"), post |-> Render(p.post, "tight"),
           small |-> [kk \in 1..3 |-> LET toks == Inst(p, kk) IN
                        [src |-> Render(toks, "tight"), compile |-> IF Grammatical(toks) THEN "ok" ELSE "err",
                         allowed |-> IF Grammatical(toks) THEN Outcomes(ParseToks(toks)[2], Doc) ELSE {}]],
           doc |-> Doc]
ASSUME ndJsonSerialize(OutFile, [i \in 1..Len(Pats) |-> Rec(Pats[i])])
VARIABLE x
Init == x = 0
Next == x' = x
=============================================================================
