------------------------------ MODULE Gen_Meta ------------------------------
(* Metamorphic cases for C15, replayed with BOTH sides on the real code:
     pipe:   sources of A, B and "A | B"; the harness compares Search("A | B", d) with Search(B, Search(A, d));
     subst:  a context C whose hole is evaluated against the root document, the source of C[A], of A, and per
             document the source of C[`v`] where v is the value the specification assigns to A (spelled by LitText);
             the harness compares Search(C[A], d) with Search(C[`v`], d) and checks that the real value of A is v.
   Every side also carries the outcome set of the specification, so a defect symmetric in both sides is seen. *)
EXTENDS Families, Json

CONSTANTS Shard, NShards, OutFile, Seed, Stride, Stride3

(* string literals are spelled as raw strings where possible (and identifiers quoted), so that several raw strings meet in one text *)
Src(e) == Render(UnparseSt(e, StQuoted), "tight")
SubstCase(g, i) ==
  LET c == CtxAt(g, i) x == BaseAt(g, i) e == Plug(c, x) IN
  IF IsBad(UnparseMin(e)) \/ IsBad(UnparseMin(x)) THEN [k |-> "skip"]
  ELSE [k |-> "subst", id |-> i, n |-> Size(e), src |-> Src(e), a |-> Src(x),
        lits |-> [d \in 1..Len(g.docs) |->
                    LET o == Outcomes(x, g.docs[d]) IN
                    IF Cardinality(o) = 1 /\ (\A y \in o : y[1] = "ok" /\ IsJSON(y[2]) /\ ~HasOpaque(y[2]) /\ AllSpellable(y[2]))
                    THEN LET v == (CHOOSE y \in o : TRUE)[2] el == Plug(c, Lit(v)) IN
                         IF IsBad(UnparseMin(el)) THEN <<>> ELSE <<Src(el), v>>
                    ELSE <<>>],
        allowed |-> [d \in 1..Len(g.docs) |-> Outcomes(e, g.docs[d])]]
PipeCase(g, i) ==
  LET a == g.l1[(i % g.n1) + 1] b == g.l1[((i \div g.n1) % g.n1) + 1] IN
  IF IsBad(UnparseMin(Pipe(a, b))) THEN [k |-> "skip"]
  ELSE [k |-> "pipe", id |-> i, n |-> Size(a) + Size(b), a |-> Src(a), b |-> Src(b), src |-> Src(Pipe(a, b)),
        allowed |-> [d \in 1..Len(g.docs) |-> Outcomes(Pipe(a, b), g.docs[d])]]
ASSUME LET g == Ctx
           mine == MineSeq(g, Shard, NShards, Stride, Stride3, Seed)
           pipes == Prog(0, g.n1 * g.n1, NShards, Shard)
           out == <<[k |-> "docs", fam |-> "C15", docs |-> g.docs]>>
                  \o SelectSeq([m \in 1..Len(mine) |-> SubstCase(g, mine[m])], LAMBDA r : r.k # "skip")
                  \o SelectSeq([m \in 1..Len(pipes) |-> PipeCase(g, pipes[m])], LAMBDA r : r.k # "skip")
       IN PrintT(<<"GEN", "meta", Len(out) - 1>>) /\ ndJsonSerialize(OutFile, out)
VARIABLE x
Init == x = 0
Next == x' = x
=============================================================================
