----------------------------- MODULE Universe -----------------------------
(* Shared bounded universes of JSON values and expression leaves used by the model-checking
   configurations MC_xxx and the generators Gen_xxx.  Sizes depend on Tier ("quick" | "thorough"). *)
EXTENDS Unparse

CONSTANT Tier
Thorough == Tier = "thorough"

cA == <<97>>   cB == <<98>>   cC == <<99>>   cAB == <<97, 98>>   cEmpty == <<>>
cEacute == <<233>>   cClef == <<119070>>
fA == Field(cA)   fB == Field(cB)   fC == Field(cC)   fE == Field(cEmpty)
I(n) == IntV(n)
Half == Num(1, 2)
S(s) == Str(s)
O1(k, v) == Obj({<<k, v>>})
O2(k1, v1, k2, v2) == Obj({<<k1, v1>>, <<k2, v2>>})
A0 == Arr(<<>>)   O0 == Obj({})
A1(x) == Arr(<<x>>)   A2(x, y) == Arr(<<x, y>>)   A3(x, y, z) == Arr(<<x, y, z>>)

(* scalars: every scalar type, both truth values, zero, sign, fraction, empty and non-ASCII strings *)
ScalCore == {Null, Bool(TRUE), Bool(FALSE), I(0), I(1), I(-1), S(cEmpty), S(cA)}
ScalMore == {I(2), Half, S(cB), S(cAB), S(cEacute), S(cClef)}
Scal == ScalCore \cup ScalMore
(* look-alikes of other types, for the equality families *)
LookAlikes == {S(<<49>>), S(<<48>>), S(<<116, 114, 117, 101>>), S(<<110, 117, 108, 108>>), S(<<91, 93>>),
               A1(I(1)), A1(S(<<49>>)), A0, O0, A1(Null), A1(A0)}

ArrsOver(X) == {A0} \cup {A1(x) : x \in X} \cup {A2(x, y) : x \in X, y \in X}
Arrs3Over(X) == ArrsOver(X) \cup {A3(x, y, z) : x \in X, y \in X, z \in X}
ObjsOver(X) == {O0} \cup {O1(cA, x) : x \in X} \cup {O2(cA, x, cB, y) : x \in X, y \in X}

SmallScal == {Null, Bool(FALSE), I(0), I(1), S(cEmpty), S(cA)}
(* mixed values for members of documents: scalars, arrays (empty, heterogeneous, with nulls, nested), objects *)
Members == {Null, Bool(TRUE), I(0), I(2), S(cA), S(cEmpty),
            A0, A2(I(1), S(cA)), A3(I(3), Null, I(1)), A2(A1(I(2)), O1(cA, I(3))), A2(A2(I(1), I(2)), A1(A1(Null))),
            O0, O2(cA, I(2), cB, S(cA)), O2(cA, A1(I(1)), cC, Bool(TRUE)),
            A3(O2(cA, I(2), cB, I(1)), O1(cA, I(1)), O2(cA, I(2), cB, S(cEmpty)))}
MembersQ == {Null, I(0), S(cA), A0, A3(I(3), Null, I(1)), A2(A1(I(2)), O1(cA, I(3))), O0, O2(cA, I(2), cB, S(cA)),
             A3(O2(cA, I(2), cB, I(1)), O1(cA, I(1)), O2(cA, I(2), cB, S(cEmpty)))}
Mem == IF Thorough THEN Members ELSE MembersQ
(* documents: all six JSON types at the root and at the positions the leaves can reach *)
DocsCore == {O2(cA, x, cB, y) : x \in Mem, y \in Mem}
            \cup {O1(cEmpty, I(7)), O0, A0, A3(I(3), I(1), I(2)), A2(O1(cA, I(1)), O1(cB, I(2))), A2(A2(I(1), I(2)), A1(I(3)))}
            \cup {Null, Bool(TRUE), Bool(FALSE), I(0), I(1), S(cEmpty), S(cA)}
=============================================================================
