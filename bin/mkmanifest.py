#!/usr/bin/env python3
"""Regenerates /verif/MANIFEST.json from the table below and the set of pipelines in props.py."""
import json
import os
import subprocess
import sys

ROOT = os.path.dirname(os.path.dirname(os.path.abspath(__file__)))
sys.path.insert(0, os.path.join(ROOT, "bin"))
import props  # noqa: E402

TEXT = {
    "C01": ("Bounded-exhaustive model checking of the evaluator theorems on the TLA+ specification (Eval.tla), then "
            "the same bounded universe of expressions x documents, spelled as source text by the specification, "
            "replayed through the real Compile/Search and compared with the outcome sets TLC computed; recorded "
            "API traces of the compliance corpus and of random deeper expressions are validated by TLC (Trace_Api).",
            "6"),
}
TECH = "TLA+ specification + TLC model checking, TLC-generated behaviours replayed into the code, recorded traces validated by TLC"
NOTE = ("Trusted: TLC/SANY, the Json community module, encoding/json, the harness codec/comparator (canaries in every run). "
        "Exhaustive only within the stated bounds; beyond them sampled with the same oracle.")


def main():
    ids = [json.loads(l)["id"] for l in open(os.path.join(ROOT, "properties.jsonl"))]
    commits = []
    try:
        out = subprocess.run(["git", "-C", "/repo", "log", "--format=%H %s"], capture_output=True, text=True).stdout
        commits = [l.split()[0] for l in out.splitlines() if l.split(" ", 1)[1].startswith("verif hook")]
    except Exception:
        pass
    checks = []
    for i in ids:
        if i not in props.PIPELINES:
            continue
        text, ref = TEXT.get(i, (TEXT["C01"][0], "6"))
        checks.append({
            "property_id": i,
            "quick_cmd": "python3 bin/check.py %s quick" % i,
            "thorough_cmd": "python3 bin/check.py %s thorough" % i,
            "evidence_file": "evidence/%s.json" % i,
            "replay_cmd_template": "python3 bin/check.py --replay {path}",
            "engine": "tlc+jmv",
            "level_claimed": {"category": "model_checking", "text": text, "design_ref": "DESIGN.md section " + ref},
            "level_note": NOTE,
            "technique": TECH,
        })
    na = [{"property_id": i, "reason": "check not built yet (build in progress; see DESIGN.md section 12)"}
          for i in ids if i not in props.PIPELINES]
    m = {
        "version": 1,
        "setup_cmd": "python3 bin/setup.py",
        "hooks": {"guard": "verif",
                  "enable": "go build -tags verif (harness module /verif/harness with replace github.com/jmespath/go-jmespath => /repo)",
                  "baseline_off_cmd": "cd /repo && go test -count=1 ./... && cd internal/testify && go test -count=1 ./...",
                  "source_commits": commits, "add_only": True},
        "engines": [{"name": "tlc+jmv", "path": "bin/check.py", "serves_properties": [c["property_id"] for c in checks],
                     "kind_free_text": "TLA+ specification in spec/ checked by TLC; Go harness harness/jmv replays TLC-generated "
                                       "behaviours into the real code and records traces that TLC validates"}],
        "checks": checks,
        "notes": "see DESIGN.md; known findings in known_findings.json",
        "not_applicable": na,
    }
    json.dump(m, open(os.path.join(ROOT, "MANIFEST.json"), "w"), indent=1)
    print("manifest: %d checks, %d not_applicable" % (len(checks), len(na)))


if __name__ == "__main__":
    main()
