------------------------------ MODULE MC_Lex ------------------------------
(* The lexer properties ON THE SPECIFICATION (C05, C14, C17), for every string over the alphabet up to
   MaxLen characters (a string is a state, extended by one character per step):

     NoPanic        the lexer machine never panics (with Dev "UnguardedIdentTable" it does: U+0080
                    after an identifier character indexes identifierTrailingBits[2])
     OffsetOK       a syntax error offset lies in 0 .. byte length; token positions are in range,
                    strictly increasing, and position + source extent stays inside the input
     QuotedId       Lex("s" JSON-escaped)  = <qid s, eof>            for every valid-UTF-8 s
     RawString      Lex('s' with ' as \')  = <strlit s, eof>         for raw-spellable s
     Literal        Lex(`"s"` as JSON, ` as \`) = <jsonlit text, eof> and the text decodes to s
     Unquoted       Lex(s) = <uid s, eof>  <=>  s in [A-Za-z_][A-Za-z0-9_]*
     Whitespace     whitespace before, after and between tokens changes no token type or value
     Pipeline       CompileModel(s) is total (never stuck): ok / err / unmodelled                       *)
EXTENDS Text

CONSTANTS MaxLen, AlphaName
Coarse == {97, 110, 98, 49, 95, 32, 34, 39, 96, 92, 91, 93, 63, 124, 61, 38, 45, 46, 117, 1, 9, 127, 128, 233, 119070, 65533, 123, 58, -255}
Fine == (0..127) \cup {128, 129, 255, 256, 2047, 2048, 65533, 65535, 65536, 1114111, -128, -192, -255, 65279}
Alpha == IF AlphaName = "coarse" THEN Coarse ELSE Fine
VARIABLE s
Init == s = <<>>
Next == Len(s) < MaxLen /\ \E c \in Alpha : s' = Append(s, c)
Spec == Init /\ [][Next]_s

ValidUtf8(x) == \A i \in 1..Len(x) : x[i] >= 0
TVs(res) == [i \in 1..Len(res[2]) |-> <<res[2][i][1], res[2][i][2]>>]
One(ty, v) == << <<ty, v>>, <<"eof", <<>>>> >>

NoPanic == Lex(s)[1] # "panic"
OffsetOK ==
  LET r == Lex(s) n == SrcByteLen(s) IN
  /\ (r[1] = "syntax" => r[2] \in 0..n)
  /\ (r[1] = "ok" => /\ \A i \in 1..Len(r[2]) : r[2][i][3] \in 0..n
                     /\ \A i \in 1..(Len(r[2]) - 1) : r[2][i][3] < r[2][i + 1][3] \/ (r[2][i + 1][1] = "eof" /\ r[2][i][3] <= r[2][i + 1][3])
                     /\ r[2][Len(r[2])] = <<"eof", <<>>, n, 0>>)
QuotedId == ValidUtf8(s) => LET r == Lex(QuoteId(s)) IN r[1] = "ok" /\ TVs(r) = One("qid", s)
RawString == (ValidUtf8(s) /\ RawSpellable(s)) => LET r == Lex(RawText(s)) IN r[1] = "ok" /\ TVs(r) = One("strlit", s)
Literal == ValidUtf8(s) => LET r == Lex(LitText(Str(s))) IN
                           /\ r[1] = "ok" /\ TVs(r) = One("jsonlit", JsonTextCps(Str(s)))
                           /\ JsonParse(r[2][1][2]) = <<"ok", Str(s)>>
Unquoted == (LET r == Lex(s) IN r[1] = "ok" /\ TVs(r) = One("uid", s)) <=> IsIdent(s)
WsSet == {<<32>>, <<9>>, <<10>>, <<13>>, <<32, 10>>}
Whitespace ==
  LET r == Lex(s) IN
  (r[1] = "ok" /\ ValidUtf8(s)) =>
     /\ \A w \in WsSet : LET r2 == Lex(w \o s \o w) IN r2[1] = "ok" /\ TVs(r2) = TVs(r)
     \* between tokens: insert a space at the rune index where a token starts (token starts are rune boundaries)
     /\ \A i \in 2..(Len(r[2]) - 1) :
          LET start == IF r[2][i][1] \in {"strlit", "jsonlit"} THEN r[2][i][3] - 1 ELSE r[2][i][3]   \* (their position is that of the content)
              k == CHOOSE kk \in 0..Len(s) : Off(DecodeSrc(s), kk) = start
              r2 == Lex(SubSeq(s, 1, k) \o <<32>> \o SubSeq(s, k + 1, Len(s))) IN
          r2[1] = "ok" /\ TVs(r2) = TVs(r)
Pipeline == CompileModel(s)[1] \in {"ok", "err", "unmodelled"}
=============================================================================
