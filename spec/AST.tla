------------------------------- MODULE AST -------------------------------
(* Abstract syntax of JMESPath expressions: the 22 node kinds the parser produces (names are the
   implementation's astNodeType names without the AST prefix; ASTEmpty is never produced).

     <<"Field", name>>                    name = code points
     <<"Index", n>>                       <<"Slice", <<p1, p2, p3>>>>   (p = <<"none">> | <<"int", n>>)
     <<"Identity">>  <<"CurrentNode">>    <<"Literal", value>>
     <<"Subexpression", l, r>>  <<"IndexExpression", l, r>>  <<"Pipe", l, r>>
     <<"OrExpression", l, r>>  <<"AndExpression", l, r>>  <<"NotExpression", e>>
     <<"Comparator", op, l, r>>           op in {"eq","ne","lt","lte","gt","gte"}
     <<"ExpRef", e>>
     <<"FunctionExpression", name, args>> name = code points, args = sequence
     <<"MultiSelectList", es>>            <<"MultiSelectHash", kvs>>   kvs = seq of <<"KeyValPair", key, e>>
     <<"Projection", l, r>>  <<"ValueProjection", l, r>>  <<"Flatten", e>>
     <<"FilterProjection", l, r, cond>>                                                           *)
EXTENDS Slice

Identity == <<"Identity">>
Current == <<"CurrentNode">>
Field(k) == <<"Field", k>>
Index(n) == <<"Index", n>>
Lit(v) == <<"Literal", v>>
Sub(l, r) == <<"Subexpression", l, r>>
IdxE(l, r) == <<"IndexExpression", l, r>>
Pipe(l, r) == <<"Pipe", l, r>>
Or(l, r) == <<"OrExpression", l, r>>
And(l, r) == <<"AndExpression", l, r>>
Not(e) == <<"NotExpression", e>>
Cmp(op, l, r) == <<"Comparator", op, l, r>>
Ref(e) == <<"ExpRef", e>>
Fn(name, args) == <<"FunctionExpression", name, args>>
KV(k, e) == <<"KeyValPair", k, e>>
MSL(es) == <<"MultiSelectList", es>>
MSH(kvs) == <<"MultiSelectHash", kvs>>
Proj(l, r) == <<"Projection", l, r>>
VProj(l, r) == <<"ValueProjection", l, r>>
Flat(e) == <<"Flatten", e>>
Filt(l, r, c) == <<"FilterProjection", l, r, c>>
SliceN(a, b, c) == <<"Slice", <<a, b, c>>>>

CmpOps == {"eq", "ne", "lt", "lte", "gt", "gte"}
Bin2 == {"Subexpression", "IndexExpression", "Pipe", "OrExpression", "AndExpression", "Projection", "ValueProjection"}
NodeKinds == Bin2 \cup {"Field", "Index", "Slice", "Identity", "CurrentNode", "Literal", "NotExpression", "Comparator",
                         "ExpRef", "FunctionExpression", "KeyValPair", "MultiSelectList", "MultiSelectHash", "Flatten",
                         "FilterProjection"}

Kids(e) == CASE e[1] \in Bin2 -> <<e[2], e[3]>>
             [] e[1] = "Comparator" -> <<e[3], e[4]>>
             [] e[1] \in {"NotExpression", "Flatten", "ExpRef"} -> <<e[2]>>
             [] e[1] = "KeyValPair" -> <<e[3]>>
             [] e[1] \in {"MultiSelectList", "MultiSelectHash"} -> e[2]
             [] e[1] = "FunctionExpression" -> e[3]
             [] e[1] = "FilterProjection" -> <<e[2], e[3], e[4]>>
             [] OTHER -> <<>>
WithKids(e, ks) ==
           CASE e[1] \in Bin2 -> <<e[1], ks[1], ks[2]>>
             [] e[1] = "Comparator" -> <<e[1], e[2], ks[1], ks[2]>>
             [] e[1] \in {"NotExpression", "Flatten", "ExpRef"} -> <<e[1], ks[1]>>
             [] e[1] = "KeyValPair" -> <<e[1], e[2], ks[1]>>
             [] e[1] \in {"MultiSelectList", "MultiSelectHash"} -> <<e[1], ks>>
             [] e[1] = "FunctionExpression" -> <<e[1], e[2], ks>>
             [] e[1] = "FilterProjection" -> <<e[1], ks[1], ks[2], ks[3]>>
             [] OTHER -> e

RECURSIVE Size(_)
Size(e) == LET ks == Kids(e)
               RECURSIVE S(_)
               S(i) == IF i > Len(ks) THEN 0 ELSE Size(ks[i]) + S(i + 1)
           IN 1 + S(1)
RECURSIVE Depth(_)
Depth(e) == LET ks == Kids(e) IN IF ks = <<>> THEN 0 ELSE 1 + MaxS({Depth(ks[i]) : i \in 1..Len(ks)})

(* ASTs recorded from the implementation come with literal values in J-form (objects as sequences) *)
RECURSIVE AstFromJ(_)
AstFromJ(e) == IF e[1] = "Literal" THEN <<"Literal", FromJ(e[2])>>
               ELSE LET ks == Kids(e) IN
                    IF ks = <<>> THEN e ELSE WithKids(e, [i \in 1..Len(ks) |-> AstFromJ(ks[i])])

(* one-hole contexts: an AST with exactly one <<"Hole">> leaf; Plug fills it *)
Hole == <<"Hole">>
RECURSIVE Plug(_, _)
Plug(c, x) == IF c = Hole THEN x
              ELSE LET ks == Kids(c) IN IF ks = <<>> THEN c ELSE WithKids(c, [i \in 1..Len(ks) |-> Plug(ks[i], x)])
RECURSIVE HasHole(_)
HasHole(e) == e = Hole \/ \E i \in 1..Len(Kids(e)) : HasHole(Kids(e)[i])
=============================================================================
