----------------------------- MODULE Families -----------------------------
(* The bounded universes ("families") of expressions and documents, shared by the model-checking
   modules MC_xxx (which check the properties on the specification) and the generators Gen_xxx
   (which emit the same universes, with the allowed outcomes, for replay against the real code).

   Large universes are never built as TLA+ sets (TLC normalises sets of deep tuples very slowly):
   level-1 expressions are an explicit sequence L1, level-2 expressions are *decoded from an index*
   through a list of schemas  Wrap(s, x, k)  with x from L1 and the k-th operand of a small pool.
   Index space: 0 .. total-1. *)
EXTENDS Universe, SequencesExt

CONSTANT Family

LitA == Lit(S(cA))
IdxI(n) == IdxE(Identity, Index(n))
IdxL(l, n) == IdxE(l, Index(n))
FieldsQ == <<fA, fB, fC, fE>>
IdxsQ == <<0, 1, -1, -2, 5>>
SeqSet(s) == {s[i] : i \in 1..Len(s)}

(* ---------------- C01: core fragment ------------------------------------------------------ *)
CoreLeaves == SeqSet(FieldsQ) \cup {IdxI(IdxsQ[n]) : n \in 1..Len(IdxsQ)}
              \cup {Current, Lit(I(1)), LitA, Lit(Null), Lit(A0), Lit(O1(cA, I(1))), Lit(A2(I(1), S(cB)))}
CorePool == <<fA, fB, fC, IdxI(0), IdxI(-1), Current, Lit(I(1)), Lit(O1(cA, I(1))), Lit(A2(I(1), S(cB)))>>
(* schema s applied to x (any expression) and the k-th operand; returns <<"none">> when k is out of range *)
CoreNS == 14
CoreDim(s) == CASE s = 1 -> Len(FieldsQ) [] s = 2 -> Len(IdxsQ) [] s \in {5, 8} -> 1 [] OTHER -> Len(CorePool)
CoreWrap(s, x, k) ==
  LET r == CorePool[k] IN
  CASE s = 1 -> Sub(x, FieldsQ[k])
    [] s = 2 -> IdxL(x, IdxsQ[k])
    [] s = 3 -> Pipe(x, r)
    [] s = 4 -> Pipe(r, x)
    [] s = 5 -> MSL(<<x>>)
    [] s = 6 -> MSL(<<x, r>>)
    [] s = 7 -> MSL(<<r, x>>)
    [] s = 8 -> MSH(<<KV(cA, x)>>)
    [] s = 9 -> MSH(<<KV(cA, x), KV(cB, r)>>)
    [] s = 10 -> MSH(<<KV(cA, r), KV(cA, x)>>)
    [] s = 11 -> Sub(r, MSL(<<x>>))
    [] s = 12 -> Sub(r, MSH(<<KV(cB, x)>>))
    [] s = 13 -> Sub(Sub(r, fA), x)
    [] s = 14 -> Pipe(Pipe(r, x), fA)
CoreL1 == SetToSeq(CoreLeaves \cup UNION {{CoreWrap(s, x, k) : k \in 1..CoreDim(s)} : s \in 1..CoreNS, x \in CoreLeaves})

(* ---------------- family table ------------------------------------------------------------ *)
L1 == CASE Family = "C01" -> CoreL1
NS == CASE Family = "C01" -> CoreNS
Dim(s) == CASE Family = "C01" -> CoreDim(s)
Wrap(s, x, k) == CASE Family = "C01" -> CoreWrap(s, x, k)
DocSet == CASE Family = "C01" -> DocsCore
Styles == <<StMin, StFull, StQuoted>>
WsOf(k) == CASE k = 1 -> "tight" [] k = 2 -> "space" [] k = 3 -> "mixed"

(* TLC does not reliably cache zero-arity definitions that go through parametrised operators, but it
   does cache LET-bound values and operator arguments; so the heavy tables (L1, documents, sizes)
   are computed once in the single ASSUME below and passed down as the record g. *)
RECURSIVE CumDim(_)
CumDim(s) == IF s = 0 THEN 0 ELSE CumDim(s - 1) + Dim(s)
Ctx == LET l1 == L1 IN
       [l1 |-> l1, docs |-> SetToSeq(DocSet), n1 |-> Len(l1), cum |-> [s \in 0..NS |-> CumDim(s)],
        total |-> Len(l1) + Len(l1) * CumDim(NS)]
(* expression number i (0-based): the first n1 are L1 itself; the rest are Wrap(s, L1[x], k) *)
ExprAt(g, i) ==
  IF i < g.n1 THEN g.l1[i + 1]
  ELSE LET sum == g.cum[NS]
           j == i - g.n1
           x == (j \div sum) + 1
           o == j % sum
           s == CHOOSE t \in 1..NS : g.cum[t - 1] <= o /\ o < g.cum[t]
       IN Wrap(s, g.l1[x], o - g.cum[s - 1] + 1)

=============================================================================
