#!/usr/bin/env python3
"""Orchestration of the model-based verification of go-jmespath.

    python3 bin/check.py <PROPERTY-ID> [quick|thorough]
    python3 bin/check.py --replay <replays/file.json>

Exit 0: the property held on everything explored (KNOWN-FINDING lines may be printed).
Exit 1: at least one line "VIOLATION property=<id> replay=<path>" for a confirmed, unlisted violation.
Exit 2: machinery failure (TLC error/timeout, harness build failure, canary not caught, candidate that
        does not reproduce) -- never presented as a violation.

Every verdict comes from the real code's API-observable behaviour compared with outcome sets that TLC
computed from the TLA+ specification in /verif/spec.  The pipelines per property are in props.py.
"""
import hashlib
import json
import os
import random
import re
import shutil
import subprocess
import sys
import tempfile
import time
from concurrent.futures import ThreadPoolExecutor

ROOT = os.path.dirname(os.path.dirname(os.path.abspath(__file__)))
SPEC = os.path.join(ROOT, "spec")
HARNESS = os.path.join(ROOT, "harness")
REPO = os.environ.get("VERIF_REPO", "/repo")
JAR = "/opt/veriftools/tla/tla2tools.jar:/opt/veriftools/tla/CommunityModules-deps.jar"
NCPU = os.cpu_count() or 4

GOENV = dict(os.environ, GOFLAGS="-mod=mod", GOPROXY="off", GOSUMDB="off", GOTOOLCHAIN="local")


class Machinery(Exception):
    """A failure of the verification machinery itself (exit 2)."""


class Ctx:
    def __init__(self, prop, tier, seed):
        self.prop, self.tier, self.seed = prop, tier, seed
        self.t0 = time.time()
        self.scratch = tempfile.mkdtemp(prefix="verif.%s." % prop, dir=os.environ.get("TMPDIR", "/tmp"))
        self.specdir = os.path.join(self.scratch, "spec")
        shutil.copytree(SPEC, self.specdir)
        self.jmv = None
        self.hooks = False
        # evidence counters
        self.states = 0
        self.transitions = 0
        self.tlc_runs = []
        self.traces = 0
        self.evaluations = 0
        self.nontrivial = 0
        self.unspec = 0
        self.samples = []
        self.canaries_in = 0
        self.canaries_hit = 0
        self.candidates = []     # violation records from the harness (unconfirmed)
        self.drift = []
        self.notes = []
        self.exhaustive = None
        self.bounds = {}
        self.rule = ""
        self.never_taken = []
        self.covered = 0

    def cleanup(self):
        shutil.rmtree(self.scratch, ignore_errors=True)

    def log(self, *a):
        print("[%s %6.1fs]" % (self.prop, time.time() - self.t0), *a, file=sys.stderr, flush=True)


# --------------------------------------------------------------------------------------------
# building the harness from /repo's current working tree

def modfile_args(ctx):
    """go build arguments selecting the tree under test: the harness module replaces the library by /repo; with
    VERIF_REPO set (self-tests of the machinery on a scratch copy) a go.mod with that path is written to the scratch."""
    if REPO == "/repo":
        return []
    mod = os.path.join(ctx.scratch, "go.mod")
    if not os.path.exists(mod):
        text = open(os.path.join(HARNESS, "go.mod")).read().replace("=> /repo", "=> " + REPO)
        open(mod, "w").write(text)
        for cand in (os.path.join(REPO, "go.sum"), os.path.join(HARNESS, "go.sum")):
            if os.path.exists(cand):
                shutil.copy(cand, os.path.join(ctx.scratch, "go.sum"))
                break
    return ["-modfile=" + mod]


def build_harness(ctx):
    out = os.path.join(ctx.scratch, "jmv")
    gosum = os.path.join(REPO, "go.sum")
    if os.path.exists(gosum):
        shutil.copy(gosum, os.path.join(HARNESS, "go.sum"))
    for tags in (["-tags", "verif"], []):
        p = subprocess.run(["go", "build"] + modfile_args(ctx) + tags + ["-o", out, "./jmv"], cwd=HARNESS, env=GOENV,
                           capture_output=True, text=True)
        if p.returncode == 0:
            ctx.jmv = out
            ctx.hooks = bool(tags)
            if not tags:
                ctx.notes.append("harness built WITHOUT the verif tag (hook file did not compile): " +
                                 "hook-dependent refinements skipped")
            return
        err = p.stderr
    raise Machinery("harness build failed:\n" + err)


def build_race(ctx):
    """The harness with the Go race detector (the only observer of the Go memory model)."""
    out = os.path.join(ctx.scratch, "jmv_race")
    for tags in (["-tags", "verif"], []):
        p = subprocess.run(["go", "build", "-race"] + modfile_args(ctx) + tags + ["-o", out, "./jmv"], cwd=HARNESS, env=GOENV, capture_output=True, text=True)
        if p.returncode == 0:
            return out
    raise Machinery("race-enabled harness build failed:\n" + p.stderr[-2000:])


def run_race(ctx, files, iters=20, goroutines=8, timeout=1800):
    """Free-running goroutines under the race detector; a race report or a wrong result is a candidate."""
    binp = build_race(ctx)
    out = os.path.join(ctx.scratch, "race.json")
    env = dict(os.environ, GORACE="halt_on_error=0 exitcode=0")
    cmd = [binp, "race", "-out", out, "-iters", str(iters), "-goroutines", str(goroutines)] + list(files)

    def once():
        try:
            p = subprocess.run(cmd, capture_output=True, text=True, timeout=timeout, env=env)
        except subprocess.TimeoutExpired:
            raise Machinery("race run timeout")
        if p.returncode != 0 or not os.path.exists(out):
            raise Machinery("jmv race failed: " + p.stderr[-2000:])
        return p.stderr.count("WARNING: DATA RACE"), json.load(open(out)), p.stderr
    races, s, err = once()
    ctx.evaluations += s["calls"]
    ctx.traces += s["workloads"]
    ctx.log("race monitor: %d calls on %d workloads, %d race report(s), %d wrong result(s)" % (s["calls"], s["workloads"], races, s["wrong_results"]))
    if races or s["wrong_results"]:
        races2, s2, err2 = once()      # confirmation in a fresh process
        if races2 or s2["wrong_results"]:
            m = re.search(r"WARNING: DATA RACE.*?(?=\n\n|\Z)", err2 or err, re.S)
            ctx.candidates.append({"cat": "race", "confirm": "own", "src": "free-running goroutines on the schedule workloads",
                                   "observed": ("%d race report(s), %d wrong result(s); first: %s %s" %
                                                (races2, s2["wrong_results"], s2.get("first_wrong", ""), (m.group(0)[:1500] if m else "")))})
        else:
            ctx.notes.append("race report did not reproduce in a second run")
            ctx.unreproduced = getattr(ctx, "unreproduced", 0) + 1
    return races, s


# --------------------------------------------------------------------------------------------
# TLC

def cfg_text(constants, extra):
    lines = ["CONSTANTS"]
    for k, v in constants.items():
        if isinstance(v, bool):
            v = "TRUE" if v else "FALSE"
        elif isinstance(v, str) and not v.startswith(("{", "<-")):
            v = '"%s"' % v
        if isinstance(v, str) and v.startswith("<-"):
            lines.append(" %s %s" % (k, v))
        else:
            lines.append(" %s = %s" % (k, v))
    return "\n".join(lines + extra) + "\n"


def run_tlc(ctx, module, constants, extra, name=None, workers=1, timeout=900, xmx="3g", simulate=None,
            coverage=False, depth=None, expect_violation=False, defs=None):
    """Run TLC on spec/<module>.tla with a generated cfg. Returns dict(out, states, distinct, ok, ...).
    defs: extra TLA+ definitions (cfg files cannot hold tuple values): a wrapper module EXTENDS module is generated."""
    name = name or module
    if defs:
        wrapper = "W_" + re.sub(r"\W", "_", name)
        with open(os.path.join(ctx.specdir, wrapper + ".tla"), "w") as f:
            f.write("---- MODULE %s ----\nEXTENDS %s\n%s\n====\n" % (wrapper, module, defs))
        module = wrapper
    cfg = os.path.join(ctx.specdir, name + ".cfg")
    with open(cfg, "w") as f:
        f.write(cfg_text(constants, extra))
    meta = os.path.join(ctx.scratch, "meta." + name)
    cmd = ["java", "-Xss256m", "-Xmx" + xmx, "-XX:+UseParallelGC", "-Djava.io.tmpdir=" + ctx.scratch, "-cp", JAR, "tlc2.TLC",
           "-workers", str(workers), "-metadir", meta, "-config", cfg, "-noGenerateSpecTE"]
    if coverage:
        cmd += ["-coverage", "1"]
    if simulate:
        cmd += ["-simulate", simulate]
        if depth:
            cmd += ["-depth", str(depth)]
        cmd += ["-seed", str(ctx.seed)]
    cmd.append(module + ".tla")
    t = time.time()
    try:
        p = subprocess.run(cmd, cwd=ctx.specdir, capture_output=True, text=True, timeout=timeout,
                           env=dict(os.environ, JAVA_TOOL_OPTIONS=""))
    except subprocess.TimeoutExpired:
        raise Machinery("TLC timeout (%ds) on %s" % (timeout, name))
    finally:
        shutil.rmtree(meta, ignore_errors=True)
    out = p.stdout + p.stderr
    res = {"name": name, "out": out, "wall": time.time() - t, "rc": p.returncode}
    m = re.search(r"(\d+) states generated, (\d+) distinct states found", out)
    if m:
        res["generated"], res["distinct"] = int(m.group(1)), int(m.group(2))
    else:
        m = re.search(r"Finished computing initial states: (\d+) distinct state", out)
        res["generated"] = res["distinct"] = int(m.group(1)) if m else 0
    res["violated"] = bool(re.search(r"is violated|Assumption .* is false|is equal to FALSE", out))
    res["error"] = ("Error:" in out) and not res["violated"]
    if res["error"] or (p.returncode != 0 and not res["violated"]):
        tail = "\n".join(l for l in out.splitlines() if not l.startswith(("Semantic", "Parsing", "Linting")))[-3000:]
        raise Machinery("TLC failed on %s (rc=%d):\n%s" % (name, p.returncode, tail))
    if not expect_violation:
        ctx.states += res["distinct"]
        ctx.transitions += res["generated"]
    ctx.tlc_runs.append({"module": name, "generated": res["generated"], "distinct": res["distinct"],
                         "wall_s": round(res["wall"], 1), "violated": res["violated"]})
    return res


def tlc_prints(out, tag):
    """Values printed by PrintT(<<"TAG", ToJson(x)>>) lines."""
    vals = []
    for line in out.splitlines():
        if line.startswith('<<"%s", ' % tag):
            m = re.match(r'<<"%s", "(.*)">>$' % tag, line)
            if m:
                s = m.group(1).encode().decode("unicode_escape") if "\\" in m.group(1) else m.group(1)
                vals.append(json.loads(s))
    return vals


def model_check(ctx, module, constants, invariants=(), properties=(), init="Init", nxt="Next", spec=None,
                name=None, workers=None, timeout=900, negative=False, extra_cfg=(), coverage=False):
    """Model-check invariants/properties of a spec module. negative=True: the run MUST find a violation
    (negative control of the model: a deviation switch is on)."""
    extra = ([("SPECIFICATION " + spec)] if spec else ["INIT " + init, "NEXT " + nxt])
    extra += ["INVARIANT " + i for i in invariants] + ["PROPERTY " + p for p in properties]
    extra += ["CHECK_DEADLOCK FALSE"] + list(extra_cfg)
    res = run_tlc(ctx, module, constants, extra, name=name, workers=workers or min(NCPU, 8), timeout=timeout,
                  expect_violation=negative, coverage=coverage)
    if negative:
        if not res["violated"]:
            raise Machinery("negative control %s: the deviation did not violate the invariant" % (name or module))
        ctx.log("negative control %s: violation found as required" % (name or module))
    elif res["violated"]:
        tail = "\n".join(l for l in res["out"].splitlines() if not l.startswith(("Semantic", "Parsing", "Linting")))[-2500:]
        raise Machinery("the SPECIFICATION violates its own property in %s (spec bug, not a code violation):\n%s"
                        % (name or module, tail))
    else:
        ctx.log("model-checked %s: %d distinct / %d generated states in %.1fs" %
                (name or module, res["distinct"], res["generated"], res["wall"]))
    if coverage:
        parse_coverage(ctx, res["out"])
    return res


def parse_coverage(ctx, out):
    for m in re.finditer(r"<(\w+) line (\d+), col \d+ to line \d+, col \d+ of module (\w+)>: (\d+):(\d+)", out):
        name, _, mod, distinct, gen = m.groups()
        if int(gen) == 0:
            ctx.never_taken.append("%s!%s" % (mod, name))
        else:
            ctx.covered += 1


def generate(ctx, module, family, constants, shards, stride=1, timeout=900, name=None, family_constant=True):
    """Run a generator module sharded over several JVMs; returns the list of ndjson files."""
    files = []
    xmx = "%dg" % max(2, min(6, 48 // max(1, shards)))

    def one(sh):
        out = os.path.join(ctx.scratch, "%s.%s.%d.ndjson" % (name or module, family, sh))
        c = dict(constants)
        c.update({"Shard": sh, "NShards": shards, "OutFile": out, "Seed": ctx.seed, "Stride": stride, "Dev": "{}"})
        if family_constant:
            c.update({"Family": family, "Tier": ctx.tier})
        res = run_tlc(ctx, module, c, ["INIT Init", "NEXT Next"], name="%s_%s_%d" % (name or module, family, sh),
                      workers=1, timeout=timeout, xmx=xmx)
        if not os.path.exists(out):
            raise Machinery("generator %s/%s shard %d wrote no output" % (module, family, sh))
        return out

    with ThreadPoolExecutor(max_workers=min(shards, NCPU)) as ex:
        files = list(ex.map(one, range(shards)))
    n = sum(1 for f in files for _ in open(f)) - len(files)
    ctx.log("generated family %s: %d cases in %d shard(s)" % (family, n, shards))
    return files


# --------------------------------------------------------------------------------------------
# replay against the real code

def replay(ctx, files, cats, canary_every=5000, oneshot=False, keep=3000, timeout=3600, extra=()):
    """Run jmv replay; violations whose category is in `cats` become candidates."""
    out = os.path.join(ctx.scratch, "replay.%d.json" % len(ctx.tlc_runs))
    cmd = [ctx.jmv, "replay", "-out", out, "-keep", str(keep), "-canary-every", str(canary_every)]
    if oneshot:
        cmd.append("-oneshot")
    cmd += list(extra) + files
    try:
        p = subprocess.run(cmd, capture_output=True, text=True, timeout=timeout)
    except subprocess.TimeoutExpired:
        raise Machinery("replay timeout")
    if p.returncode != 0 or not os.path.exists(out):
        raise Machinery("jmv replay failed: " + p.stderr[-2000:])
    s = json.load(open(out))
    ctx.traces += s["cases"]
    ctx.evaluations += s["evaluations"]
    ctx.nontrivial += s["distinct_nontrivial"]
    ctx.unspec += s["unspecified_skipped"]
    ctx.canaries_in += s["canaries_injected"]
    ctx.canaries_hit += s["canaries_caught"]
    for k, n in (s.get("drift") or {}).items():
        ctx.drift.append("%s: %d" % (k, n))
    for d in s.get("drift_samples") or []:
        if len(ctx.drift) < 20:
            ctx.drift.append(d)
    for x in s["samples"] or []:
        if len(ctx.samples) < 8:
            ctx.samples.append(x)
    other = {}
    batch = {"files": list(files), "extra": list(extra), "oneshot": oneshot}
    for v in s["violations"] or []:
        if v["cat"] in cats or v["cat"] in ("timeout", "compile-timeout"):
            v["batch"] = batch
            ctx.candidates.append(v)
        else:
            other[v["cat"]] = other.get(v["cat"], 0) + 1
    counts = s["violation_counts"]
    ncand = sum(n for c, n in counts.items() if c in cats)
    ctx.log("replayed %d cases / %d API calls: %d candidate(s) in categories %s; other categories %s; canaries %d/%d"
            % (s["cases"], s["evaluations"], ncand, sorted(cats), {c: n for c, n in counts.items() if c not in cats},
               s["canaries_caught"], s["canaries_injected"]))
    if s.get("incomplete"):
        ctx.notes.append("replay stopped at a hanging call; later cases of that batch were not examined")
    if ncand > len([v for v in (s["violations"] or []) if v["cat"] in cats]):
        ctx.notes.append("more candidates (%d) than kept in detail" % ncand)
    return s


def apalache(ctx, module, inv, length=0, timeout=600, negative=False):
    """Apalache (symbolic, unbounded integers) on a small typed module; used for the slice saturation lemma."""
    out = os.path.join(ctx.scratch, "apalache." + inv)
    try:
        p = subprocess.run(["apalache-mc", "check", "--init=Init", "--next=Next", "--inv=" + inv, "--length=%d" % length, "--out-dir=" + out,
                            module + ".tla"], cwd=ctx.specdir, capture_output=True, text=True, timeout=timeout)
    except subprocess.TimeoutExpired:
        raise Machinery("apalache timeout on %s/%s" % (module, inv))
    ok = "The outcome is: NoError" in p.stdout
    bad = "The outcome is: Error" in p.stdout
    if not ok and not bad:
        raise Machinery("apalache failed on %s/%s: %s" % (module, inv, (p.stdout + p.stderr)[-800:]))
    if negative and ok:
        raise Machinery("apalache negative control %s/%s: no counterexample found" % (module, inv))
    if not negative and bad:
        raise Machinery("the SPECIFICATION violates its own lemma %s/%s (apalache)" % (module, inv))
    ctx.tlc_runs.append({"module": "apalache:%s:%s" % (module, inv), "generated": 0, "distinct": 0, "wall_s": 0, "violated": bad})
    ctx.log("apalache %s/%s: %s" % (module, inv, "counterexample found as required" if negative else "holds for all integers"))


def trace_parse(ctx, tr, meta, nlines, timeout=1800, shards=4):
    """Trace_Parse.tla: the nud / led steps logged by the real parser for every Compile of the trace against the
    parser machine ParserM.tla, sharded over the lines modulo the number of shards (the machine is deterministic: one behaviour per shard)."""
    from concurrent.futures import ThreadPoolExecutor
    ranges = list(range(shards))
    base = len(ctx.tlc_runs)

    def one(k):
        return run_tlc(ctx, "Trace_Parse", {"Dev": "{}", "TraceFile": tr, "Shard": k, "NShards": shards},
                       ["SPECIFICATION Spec", "INVARIANT MachineInv", "CHECK_DEADLOCK FALSE"],
                       name="Trace_Parse_%d_%d" % (base, k), workers=1, timeout=timeout, xmx="4g")
    with ThreadPoolExecutor(max_workers=len(ranges)) as ex:
        results = list(ex.map(one, range(len(ranges))))
    drift, stats = [], {"compiles": 0, "steps": 0, "events": 0, "skipped": 0, "lexed": 0, "lsteps": 0, "ltokens": 0}
    for res in results:
        if res["violated"]:
            raise Machinery("Trace_Parse: a machine invariant fails on a recorded input (spec bug):\n" + res["out"][-1500:])
        vals = {}
        for tag in ("PDRIFT", "PSTATS"):
            mm = re.search(r'<<"%s", "(.*)">>' % tag, res["out"])
            if not mm:
                raise Machinery("Trace_Parse did not consume its lines (no %s)" % tag)
            vals[tag] = json.loads(mm.group(1).replace('\\"', '"').replace("\\\\", "\\"))
        drift += vals["PDRIFT"]
        for k2 in stats:
            stats[k2] += vals["PSTATS"][k2]
    can = {(ln, "ptrail") for ln in meta.get("pev_canaries") or []} | {(ln, "ltoks") for ln in meta.get("tok_canaries") or []}
    hit = {(d["line"], d["why"]) for d in drift} & can
    ctx.canaries_in += len(can)
    ctx.canaries_hit += len(hit)
    if hit != can:
        raise Machinery("Trace_Parse missed corrupted token streams / parser-step sequences at %s" % sorted(can - hit)[:5])
    real = [d for d in drift if (d["line"], d["why"]) not in can]
    for d in real[:10]:
        ctx.drift.append("trace line %d: %s" % (d["line"], d["why"]))
    ctx.log("front-end machine trace validation: %d texts lexed in %d lexer steps (%d tokens compared), %d parses in %d parser steps "
            "(%d nud/led events compared), %d drift, canaries %d/%d" %
            (stats["lexed"], stats["lsteps"], stats["ltokens"], stats["compiles"], stats["steps"], stats["events"], len(real), len(hit), len(can)))
    ctx.bounds["Trace_Parse"] = dict(stats, drift=len(real))
    return real


def trace_api(ctx, cats, n=600, corpus=True, timeout=1800, parse=False, mutants=0, reuse=False):
    """Layer L3: record a trace of real API calls (compliance corpus + seeded random driver beyond the generators'
    bounds) and validate it with TLC against Trace_Api.tla. `cats`: which mismatch kinds count for this property."""
    tr = os.path.join(ctx.scratch, "trace.%d.ndjson" % len(ctx.tlc_runs))
    meta = tr + ".meta"
    cmd = [ctx.jmv, "record", "-out", tr, "-meta", meta, "-seed", str(ctx.seed), "-n", str(n), "-repo", REPO,
           "-corpus=%s" % ("true" if corpus else "false"), "-canary-every", "397"]
    if parse:
        cmd += ["-pev-canary-every", "97", "-mutants", str(mutants)]
    elif mutants:
        cmd += ["-mutants", str(mutants)]
    if reuse:
        cmd += ["-reuse-parser"]
    p = subprocess.run(cmd, capture_output=True, text=True, timeout=timeout)
    if p.returncode != 0:
        raise Machinery("jmv record failed: " + p.stderr[-1500:])
    m = json.load(open(meta))
    if parse and ctx.hooks:
        trace_parse(ctx, tr, m, m["lines"], timeout=timeout, shards=6 if ctx.tier == "quick" else 12)
    res = run_tlc(ctx, "Trace_Api", {"Dev": "{}", "TraceFile": tr}, ["SPECIFICATION Spec", "POSTCONDITION TraceAccepted", "CHECK_DEADLOCK FALSE"],
                  name="Trace_Api_%d" % len(ctx.tlc_runs), workers=1, timeout=timeout, xmx="8g")
    if "TraceAccepted" in res["out"] and "violated" in res["out"]:
        raise Machinery("trace not fully consumed by Trace_Api")

    def printed(tag):
        mm = re.search(r'<<"%s", "(.*)">>' % tag, res["out"])
        if not mm:
            raise Machinery("Trace_Api did not print " + tag)
        return json.loads(mm.group(1).replace('\\"', '"').replace("\\\\", "\\"))
    bad, drift, stats = printed("BAD"), printed("DRIFT"), printed("STATS")
    lines = open(tr).read().splitlines()
    canary_lines = {c["line"]: c["kind"] for c in m["canaries"] or []}
    ctx.canaries_in += len(canary_lines)
    ctx.traces += m["handles"]
    ctx.evaluations += m["lines"]
    ctx.nontrivial += stats["searches"] - stats["unspec"]
    ctx.unspec += stats["unspec"] + stats["unmodelled"]
    tokcan = set(m.get("tok_canaries") or [])
    drift = [d for d in drift if not (d["why"] == "tokens" and d["line"] in tokcan)]
    for d in drift[:10]:
        ctx.drift.append("trace line %d: %s" % (d["line"], d["why"]))
    ncand = 0
    hit_lines = set()
    for b in bad:
        ln = b["line"]
        if ln in canary_lines:
            if ln not in hit_lines:
                hit_lines.add(ln)
                ctx.canaries_hit += 1
            continue
        ev = json.loads(lines[ln - 1])
        # find the Compile event of this handle for the source text
        text = ev.get("text")
        if text is None:
            for k in range(ln - 1, -1, -1):
                e2 = json.loads(lines[k])
                if e2["op"] == "Compile" and e2["h"] == ev["h"]:
                    text = e2["text"]
                    break
        cat = {"outcome": "outcome", "docmod": "docmod", "compile-accepts": "compile-accepted", "compile-rejects": "compile-rejected",
               "reuse-accepts": "parser-reuse", "reuse-rejects": "parser-reuse", "reuse-differs": "parser-reuse"}.get(b["why"], b["why"])
        if cat not in cats:
            continue
        src = bytes((-c if c < 0 else 0) for c in []).decode() if False else "".join(chr(c) if c >= 0 else "\\x%02x" % -c for c in text)
        v = {"cat": cat, "fam": "trace", "id": ln, "src": src, "src_cps": text, "observed": json.dumps(ev.get("obs", ev.get("ok")))[:300]}
        if ev["op"] == "Search":
            v["doc"] = ev["doc"]
            v["allowed"] = b["allowed"]
        else:
            v["allowed"] = b["allowed"]
        if ev["op"] == "Parse":
            # depends on what the reused Parser saw before: confirmed by recording the same trace again in a fresh process
            v["confirm"] = "retrace"
            v["retrace"] = {"cmd": cmd, "line": ln, "ok": ev["ok"], "ast": ev.get("ast")}
            v["observed"] = "Parser.Parse on a reused Parser: ok=%s (the text alone determines: %s)" % (ev["ok"], b["allowed"])
        ctx.candidates.append(v)
        ncand += 1
    ctx.log("trace validation: %d events (%d compiles, %d searches; %d unmodelled, %d unspecified), %d candidate(s), %d drift, canaries %d/%d" %
            (m["lines"], m["handles"], stats["searches"], stats["unmodelled"], stats["unspec"], ncand, len(drift),
             len(hit_lines), len(canary_lines)))
    if len(ctx.samples) < 8:
        ctx.samples.append({"recorded_trace_event": json.loads(lines[min(len(lines) - 1, 5)])})


def run_tool(ctx, tool, files, cats, extra=(), canary_every=0, timeout=3600):
    """Run another jmv sub-command (history, sched, ...) whose summary has the same shape as replay's."""
    out = os.path.join(ctx.scratch, "%s.%d.json" % (tool, len(ctx.tlc_runs) + len(ctx.candidates)))
    cmd = [ctx.jmv, tool, "-out", out] + (["-canary-every", str(canary_every)] if canary_every else []) + list(extra) + list(files)
    try:
        p = subprocess.run(cmd, capture_output=True, text=True, timeout=timeout)
    except subprocess.TimeoutExpired:
        raise Machinery("jmv %s timeout" % tool)
    if p.returncode != 0 or not os.path.exists(out):
        raise Machinery("jmv %s failed: %s" % (tool, p.stderr[-2000:]))
    s = json.load(open(out))
    ctx.traces += s.get("cases", 0)
    ctx.evaluations += s.get("evaluations", 0)
    ctx.nontrivial += s.get("distinct_nontrivial", 0)
    ctx.canaries_in += s.get("canaries_injected", 0)
    ctx.canaries_hit += s.get("canaries_caught", 0)
    for x in s.get("samples") or []:
        if len(ctx.samples) < 8:
            ctx.samples.append(x)
    ncand = 0
    for v in s.get("violations") or []:
        if v["cat"] in cats:
            if tool == "stress":
                v["confirm"] = "replay" if v.get("src_cps") else "own"
            else:
                v["confirm"] = "tool"
                v["tool"] = tool
                v["tool_extra"] = list(extra)
            ctx.candidates.append(v)
            ncand += 1
    ctx.log("jmv %s: %d cases / %d API calls: %d candidate(s) %s; canaries %d/%d" %
            (tool, s.get("cases", 0), s.get("evaluations", 0), ncand, s.get("violation_counts"),
             s.get("canaries_caught", 0), s.get("canaries_injected", 0)))
    return s


# --------------------------------------------------------------------------------------------
# triage: confirmation in a fresh process, known findings, reporting

def load_known():
    p = os.path.join(ROOT, "known_findings.json")
    if not os.path.exists(p):
        return []
    return json.load(open(p))


def finding_matches(entry, prop, v):
    if entry.get("kind") != "finding" or entry.get("property") != prop:
        return False
    m = entry.get("match", {})
    if "input" in m and m["input"] != v.get("src"):
        return False
    if "input_regex" in m and not re.search(m["input_regex"], v.get("src", "")):
        return False
    if "cat" in m and m["cat"] != v.get("cat"):
        return False
    if "tag" in m and m["tag"] != v.get("tag"):
        return False
    if "observed_regex" in m and not re.search(m["observed_regex"], v.get("observed", "")):
        return False
    return bool(m)


def confirm(ctx, cands):
    """Re-execute each candidate in a fresh process; returns the confirmed ones."""
    if not cands:
        return []
    confirmed = []
    path = os.path.join(ctx.scratch, "confirm.ndjson")
    replayable = [v for v in cands if "src_cps" in v and v.get("confirm", "replay") == "replay"]
    toolc = [v for v in cands if v.get("confirm") == "tool"]
    retrace = [v for v in cands if v.get("confirm") == "retrace"]
    passthrough = [v for v in cands if v not in replayable and v not in toolc and v not in retrace]   # confirmed by their own stage
    for n, v in enumerate(retrace):
        rt = v["retrace"]
        out2 = os.path.join(ctx.scratch, "retrace.%d.ndjson" % n)
        cmd2 = list(rt["cmd"])
        cmd2[0] = ctx.jmv            # (a replay file carries the path of the harness of the run that wrote it)
        cmd2[cmd2.index("-out") + 1] = out2
        cmd2[cmd2.index("-meta") + 1] = out2 + ".meta"
        p = subprocess.run(cmd2, capture_output=True, text=True, timeout=1800)
        same = False
        if p.returncode == 0:
            lines2 = open(out2).read().splitlines()
            if rt["line"] <= len(lines2):
                e2 = json.loads(lines2[rt["line"] - 1])
                same = e2.get("op") == "Parse" and e2.get("ok") == rt["ok"] and e2.get("ast") == rt.get("ast")
        if same:
            v["needs_history"] = True
            confirmed.append(v)
        else:
            ctx.notes.append("candidate did not reproduce in a fresh process: retrace line %d" % rt["line"])
            ctx.unreproduced = getattr(ctx, "unreproduced", 0) + 1
    for tool in sorted({v["tool"] for v in toolc}):
        vs = [v for v in toolc if v["tool"] == tool]
        tpath = os.path.join(ctx.scratch, "confirm.%s.ndjson" % tool)
        with open(tpath, "w") as f:
            for v in vs:
                if v.get("pools") is not None:
                    f.write(json.dumps(v["pools"]) + "\n")
                f.write(json.dumps(v["rec"]) + "\n")
        tout = os.path.join(ctx.scratch, "confirm.%s.json" % tool)
        p = subprocess.run([ctx.jmv, tool, "-out", tout] + vs[0].get("tool_extra", []) + [tpath], capture_output=True, text=True, timeout=900)
        if p.returncode != 0:
            raise Machinery("confirmation run of jmv %s failed: %s" % (tool, p.stderr[-1500:]))
        again = {(w["id"], w["cat"]) for w in json.load(open(tout)).get("violations") or []}
        for v in vs:
            if (v["id"], v["cat"]) in again:
                confirmed.append(v)
            else:
                ctx.notes.append("candidate did not reproduce in a fresh process: %s %s id=%s" % (tool, v["cat"], v["id"]))
                ctx.unreproduced = getattr(ctx, "unreproduced", 0) + 1
    with open(path, "w") as f:
        for i, v in enumerate(replayable):
            docs = [v["doc"]] if v.get("doc") is not None else [["null"]]
            f.write(json.dumps({"k": "docs", "fam": v.get("fam", ""), "docs": docs}) + "\n")
            comp = "ok"
            if v["cat"].startswith("compile-"):
                comp = v.get("allowed") or "ok"
            rec = {"k": "case", "id": i, "n": 1, "srcs": [v["src_cps"]], "compile": comp,
                   "allowed": [v["allowed"]] if (v.get("doc") is not None and not v["cat"].startswith("compile-")) else []}
            f.write(json.dumps(rec) + "\n")
    if replayable:
        out = os.path.join(ctx.scratch, "confirm.json")
        p = subprocess.run([ctx.jmv, "replay", "-out", out, "-keep", "100000", "-oneshot", "-contract", path],
                           capture_output=True, text=True, timeout=600)
        if p.returncode != 0:
            raise Machinery("confirmation run failed: " + p.stderr[-1500:])
        s = json.load(open(out))
        got = {}
        for w in s["violations"] or []:
            got.setdefault(w["id"], set()).add(w["cat"])
        alone_failed = []
        for i, v in enumerate(replayable):
            cats = got.get(i, set())
            if v["cat"] in cats or (v["cat"] == "outcome" and "panic" in cats) or \
               (v["cat"] in ("timeout", "compile-timeout") and cats):
                confirmed.append(v)
            else:
                alone_failed.append(v)
        # A violation that needs the calls made before it (library state carried from one call to the next) does not
        # reproduce alone: re-run its whole batch in a fresh process and look for the same case again.
        rerun = {}
        for v in alone_failed:
            b = v.get("batch")
            key = json.dumps(b, sort_keys=True) if b else None
            if key and all(os.path.exists(f) for f in b["files"]):
                if key not in rerun:
                    o2 = os.path.join(ctx.scratch, "confirm.batch.%d.json" % len(rerun))
                    cmd = [ctx.jmv, "replay", "-out", o2, "-keep", "100000"] + (["-oneshot"] if b.get("oneshot") else []) + b["extra"] + b["files"]
                    p2 = subprocess.run(cmd, capture_output=True, text=True, timeout=3600)
                    rerun[key] = {(w["cat"], w.get("fam"), w["id"]) for w in (json.load(open(o2)).get("violations") or [])} if p2.returncode == 0 else set()
                if (v["cat"], v.get("fam"), v["id"]) in rerun[key]:
                    v["needs_history"] = True
                    v["observed"] = (v.get("observed") or "") + "  [reproduces only after the preceding calls of its batch: state is carried between calls]"
                    confirmed.append(v)
                    continue
            ctx.notes.append("candidate did not reproduce in a fresh process: %s %r" % (v["cat"], v.get("src")))
            ctx.unreproduced = getattr(ctx, "unreproduced", 0) + 1
    return confirmed + passthrough


def report(ctx, confirmed):
    """Match confirmed violations against known findings; write replay files; return exit code."""
    known = load_known()
    hit = {}
    fresh = []
    for v in confirmed:
        e = next((e for e in known if finding_matches(e, ctx.prop, v)), None)
        if e is not None:
            hit.setdefault(e["id"], e)
        else:
            fresh.append(v)
    for e in hit.values():
        print("KNOWN-FINDING: property=%s %s: %s" % (ctx.prop, e["id"], e["what"]), flush=True)
    ctx.known_hit = sorted(hit)
    os.makedirs(os.path.join(ROOT, "replays"), exist_ok=True)
    seen = set()
    nviol = 0
    for v in fresh:
        # one line per distinct failing expression (family, case id), whatever the spelling / document
        sig = json.dumps([v.get("cat"), v.get("fam"), v.get("id"), v.get("tag")] if (v.get("fam") or v.get("tool")) else
                         [v.get("cat"), v.get("src"), v.get("doc"), v.get("tag")], sort_keys=True)
        key = hashlib.sha1(sig.encode()).hexdigest()[:12]
        if key in seen:
            continue
        seen.add(key)
        nviol += 1
        if nviol > 15:
            continue
        path = os.path.join(ROOT, "replays", "%s-%s.json" % (ctx.prop, key))
        with open(path, "w") as f:
            json.dump({"property": ctx.prop, "violation": {k: x for k, x in v.items() if k != "batch"}, "tier": ctx.tier, "seed": ctx.seed,
                       "batch": ({"files": [os.path.basename(x) for x in v["batch"]["files"]], "note": "re-run the check to regenerate the batch"}
                                 if v.get("needs_history") and v.get("batch") else None)}, f, indent=1)
        if v.get("tool"):
            v = dict(v, rec="(see replay file)", pools="(see replay file)")
        what = "%s expr=%r observed=%s" % (v.get("cat"), v.get("src"), (v.get("observed") or "")[:160])
        print("VIOLATION property=%s replay=%s  # %s" % (ctx.prop, path, what), flush=True)
    if nviol > 15:
        print("# ... and %d more distinct failing expressions (see evidence)" % (nviol - 15), flush=True)
    ctx.violations = nviol
    return 1 if nviol else 0


def write_evidence(ctx, level="model_checking", extra=None):
    cov = {
        "states": max(ctx.states, 0), "transitions": max(ctx.transitions, 0),
        "traces_validated_against_impl": ctx.traces,
        "evaluations": ctx.evaluations, "distinct_nontrivial": ctx.nontrivial,
        "rule": ctx.rule, "samples": ctx.samples[:8] or ["(no sample collected)"],
        "exhaustive": bool(ctx.exhaustive), "bounds": ctx.bounds,
        "tlc_runs": ctx.tlc_runs, "unspecified_skipped": ctx.unspec,
        "canaries_injected": ctx.canaries_in, "canaries_caught": ctx.canaries_hit,
        "known_findings_hit": getattr(ctx, "known_hit", []), "drift": ctx.drift[:20],
        "spec_actions_covered": ctx.covered, "never_taken": ctx.never_taken[:40],
        "hooks_enabled": ctx.hooks, "notes": ctx.notes[:40],
    }
    if extra:
        cov.update(extra)
    ev = {"property_id": ctx.prop, "tier": ctx.tier, "seed": ctx.seed, "level": level, "coverage": cov,
          "assumptions": ["TLC 1.8 and SANY evaluate the TLA+ specification correctly",
                          "the Json community module serialises TLA+ values faithfully",
                          "encoding/json, reflect and the Go runtime (and the race detector where used)",
                          "the codec and comparator of /verif/harness (exercised by canaries in every run)",
                          "the specification in /verif/spec states what JMESPath requires (validated against the official compliance suite)"],
          "wall_s": round(time.time() - ctx.t0, 1), "violations": getattr(ctx, "violations", 0)}
    evdir = os.environ.get("VERIF_EVIDENCE_DIR") or os.path.join(ROOT, "evidence")      # (self-tests on scratch copies write elsewhere)
    os.makedirs(evdir, exist_ok=True)
    with open(os.path.join(evdir, ctx.prop + ".json"), "w") as f:
        json.dump(ev, f, indent=1)


def finish(ctx):
    """Canaries, confirmation, known findings, evidence, exit code."""
    if ctx.canaries_in and ctx.canaries_hit != ctx.canaries_in:
        raise Machinery("canaries: %d injected, %d caught" % (ctx.canaries_in, ctx.canaries_hit))
    confirmed = confirm(ctx, ctx.candidates)
    rc = report(ctx, confirmed)
    if rc == 0 and getattr(ctx, "unreproduced", 0):
        write_evidence(ctx)
        raise Machinery("%d candidate violation(s) did not reproduce in a fresh process" % ctx.unreproduced)
    write_evidence(ctx)
    return rc


def main():
    args = sys.argv[1:]
    if not args:
        print(__doc__)
        return 2
    sys.path.insert(0, os.path.join(ROOT, "bin"))
    import props
    if args[0] == "--replay":
        rec = json.load(open(args[1]))
        ctx = Ctx(rec["property"], "quick", 0)
        try:
            build_harness(ctx)
            v = rec["violation"]
            got = confirm(ctx, [v])
            if got:
                print("VIOLATION property=%s replay=%s  # reproduced: %s" % (rec["property"], args[1], v.get("observed", "")[:160]))
                return 1
            print("not reproduced on the current tree")
            return 0
        finally:
            ctx.cleanup()
    prop = args[0]
    tier = args[1] if len(args) > 1 else os.environ.get("VERIF_TIER", "quick")
    seed = int(os.environ.get("VERIF_SEED", "1"))
    if prop not in props.PIPELINES:
        print("unknown property", prop)
        return 2
    ctx = Ctx(prop, tier, seed)
    try:
        build_harness(ctx)
        props.PIPELINES[prop](ctx)
        rc = finish(ctx)
        ctx.log("done: exit %d" % rc)
        return rc
    except Machinery as e:
        print("MACHINERY-FAILURE property=%s: %s" % (prop, e), file=sys.stderr, flush=True)
        return 2
    except Exception:
        # an internal error of the machinery is never a verdict about the code: exit 2, not the interpreter's exit 1
        import traceback
        print("MACHINERY-FAILURE property=%s: internal error\n%s" % (prop, traceback.format_exc()), file=sys.stderr, flush=True)
        return 2
    finally:
        if not os.environ.get("VERIF_KEEP"):
            ctx.cleanup()


if __name__ == "__main__":
    sys.path.insert(0, os.path.join(ROOT, "bin"))
    try:
        import check
        rc = check.main()
    except SystemExit:
        raise
    except BaseException:
        import traceback
        print("MACHINERY-FAILURE: internal error\n" + traceback.format_exc(), file=sys.stderr, flush=True)
        rc = 2
    sys.exit(rc)
