-------------------------------- MODULE Heap --------------------------------
(* C06 on the model: documents are trees of mutable cells (Go slices and maps alias), an argument expression
   that is a path into the document (@, a, a.b) ALIASES the cell it denotes, and a built-in declares its effect:
   in the specification every built-in reads its arguments and allocates its result, so the document after a
   Search equals the document before.  The in-place VARIANTS an implementation could have are named switches;
   for each of them DocAfter computes what the caller's document would look like after the call.

   What TLC decides here (MC_Heap) is the NON-VACUITY OF THE OBSERVATION made by the replay of family C06: for
   every variant there is an expression and a document of that family on which the write is visible in the
   before/after snapshot (an already sorted array, a palindrome or key-disjoint objects would hide it). *)
EXTENDS Families

Variants == {"SortInPlace", "SortByInPlace", "ReverseInPlace", "MergeIntoFirst", "MapInPlace", "ToArrayAppend", "KeysSortInPlace"}

(* the document path an argument expression aliases, or <<"fresh">> *)
RECURSIVE AliasPath(_)
AliasPath(e) == CASE e[1] = "CurrentNode" -> <<"path", <<>>>>
                  [] e[1] = "Field" -> <<"path", <<e[2]>>>>
                  [] e[1] = "Subexpression" /\ e[3][1] = "Field" ->
                       (LET l == AliasPath(e[2]) IN IF l[1] = "path" THEN <<"path", Append(l[2], e[3][2])>> ELSE <<"fresh">>)
                  [] OTHER -> <<"fresh">>
RECURSIVE ReadAt(_, _), WriteAt(_, _, _)
ReadAt(doc, path) == IF path = <<>> THEN doc ELSE IF doc[1] = "obj" THEN ReadAt(Lookup(doc, Head(path)), Tail(path)) ELSE Null
WriteAt(doc, path, v) ==
  IF path = <<>> THEN v
  ELSE IF doc[1] # "obj" THEN doc
  ELSE Obj({kv \in doc[2] : kv[1] # Head(path)} \cup {<<Head(path), WriteAt(Lookup(doc, Head(path)), Tail(path), v)>>})

OkValue(S0) == IF \E x \in S0 : x[1] = "ok" THEN <<"ok", (CHOOSE x \in S0 : x[1] = "ok")[2]>> ELSE <<"none">>
(* the document after evaluating the top-level call e against doc, under one in-place variant *)
DocAfterV(variant, e, doc) ==
  IF e[1] # "FunctionExpression" \/ e[3] = <<>> THEN doc
  ELSE LET name == FnOf(e[2])
           arg == IF name = "map" /\ Len(e[3]) = 2 THEN e[3][2] ELSE e[3][1]
           al == AliasPath(arg)
           res == OkValue(Outcomes(e, doc))
           hits == \/ (variant = "SortInPlace" /\ name = "sort") \/ (variant = "SortByInPlace" /\ name = "sort_by")
                   \/ (variant = "ReverseInPlace" /\ name = "reverse") \/ (variant = "MergeIntoFirst" /\ name = "merge")
                   \/ (variant = "MapInPlace" /\ name = "map")
       IN IF al[1] = "path" /\ res[1] = "ok" /\ hits /\ ReadAt(doc, al[2])[1] = res[2][1] THEN WriteAt(doc, al[2], res[2])
          ELSE IF al[1] = "path" /\ res[1] = "ok" /\ variant = "ToArrayAppend" /\ name = "to_array" /\ ReadAt(doc, al[2])[1] = "arr"
               THEN WriteAt(doc, al[2], Arr(Append(ReadAt(doc, al[2])[2], Null)))
          ELSE doc
(* in the specification no built-in writes: the document is unchanged (stated for completeness) *)
DocAfterSpec(e, doc) == doc

Observable(variant, g) == \E i \in 1..g.n1 : \E d \in 1..Len(g.docs) : DocAfterV(variant, g.l1[i], g.docs[d]) # g.docs[d]
(* error-path observability for the by-expression functions: some document makes the call fail after the
   function has started comparing (mixed key types), so that a partial in-place sort would be left behind *)
ErrorPathCovered(g) == \E i \in 1..g.n1 : \E d \in 1..Len(g.docs) :
      LET e == g.l1[i] IN e[1] = "FunctionExpression" /\ FnOf(e[2]) = "sort_by" /\ AliasPath(e[3][1])[1] = "path"
                          /\ ReadAt(g.docs[d], AliasPath(e[3][1])[2])[1] = "arr" /\ Len(ReadAt(g.docs[d], AliasPath(e[3][1])[2])[2]) >= 3
                          /\ Outcomes(e, g.docs[d]) = ErrS
VARIABLE v
Init == v \in {"SortInPlace", "SortByInPlace", "ReverseInPlace", "MergeIntoFirst", "MapInPlace", "ToArrayAppend"}
Next == UNCHANGED v
Spec == Init /\ [][Next]_v
G == Ctx
AllObservable == Observable(v, G)
ErrorPath == ErrorPathCovered(G)
=============================================================================
