------------------------------ MODULE Trace_Api ------------------------------
(* Trace validation (layer L3): a log of API calls recorded from the REAL code -- Compile / MustCompile,
   Search on a compiled expression (possibly many times on one handle) and the one-shot Search, each with
   the source text, the document before and after the call and the observed outcome -- is checked against
   the specification.  Everything is recomputed from the TEXT by the specification's own pipeline
   (Text!CompileModel: lexer, token conversion, Pratt machine) and evaluator (Eval!Outcomes), so this path
   shares nothing with the generators' Unparse.

   Trace actions are always enabled for their event kind and record mismatches in `bad` (with the line
   number and the allowed set) instead of blocking, so one TLC run reports every mismatch:
     "compile-accepts" / "compile-rejects"   C04: the real Compile and the grammar disagree
     "outcome"                               observed outcome not in Outcomes (C01, C02, C07-C11, C16)
     "docmod"                                the document after the call differs from the document before (C06)
     "reuse-accepts" / "reuse-rejects"       (op Parse: the text on ONE Parser object reused for the whole trace) the verdict
                                             differs from the one the text alone determines (C13)
     "history"                               (same handle searched again) covered by "outcome": the allowed set
                                             is a function of (text, document) only (C13)
   Reported as drift (not a verdict): a real AST that differs structurally from the specification's ("ast"), a
   token stream that differs from the lexer specification's ("tokens"), a syntax-error offset other than the
   predicted one ("offset"), and an Execute-entry sequence (verifEnter hook) that no trail of the instrumented
   semantics EvalTrace!OutT explains ("enter": evaluation order / short-circuiting / once-per-element).
   Acceptance: every line consumed (TraceAccepted). *)
EXTENDS Text, EvalTrace, Json

CONSTANT TraceFile
Trace == ndJsonDeserialize(TraceFile)

VARIABLES l, models, bad, drift, stats
vars == <<l, models, bad, drift, stats>>

Init == l = 1 /\ models = <<>> /\ bad = {} /\ drift = {} /\ stats = [events |-> 0, unmodelled |-> 0, unspec |-> 0, searches |-> 0]

(* the real token stream (hook VerifTokenize) against the lexer specification: types, values of valued tokens,
   byte positions and lengths *)
TokDiffers(spec, real) ==
  \/ Len(spec) # Len(real)
  \/ \E i \in 1..Len(spec) : \/ spec[i][1] # real[i][1] \/ spec[i][3] # real[i][3] \/ spec[i][4] # real[i][4]
                               \/ (spec[i][1] \in {"uid", "qid", "number", "jsonlit", "strlit"} /\ spec[i][2] # real[i][2])

IsEvent(op) == l <= Len(Trace) /\ Trace[l].op = op /\ l' = l + 1

TraceCompile ==
  /\ IsEvent("Compile")
  /\ LET ev == Trace[l]
         m == CompileModel(ev.text)
         real == ev.ok
     IN /\ models' = (ev.h :> m) @@ models
        /\ bad' = bad \cup (IF m[1] \in {"unmodelled"} THEN {}
                            ELSE IF m[1] = "ok" /\ ~real THEN {[line |-> l, why |-> "compile-rejects", allowed |-> "ok"]}
                            ELSE IF m[1] = "err" /\ real THEN {[line |-> l, why |-> "compile-accepts", allowed |-> "err"]}
                            ELSE IF m[1] = "panic" THEN {[line |-> l, why |-> "spec-panic", allowed |-> "?"]}
                            ELSE {})
        /\ drift' = drift \cup (IF m[1] = "ok" /\ real /\ ev.ast # <<>> /\ AstFromJ(ev.ast) # m[2] THEN {[line |-> l, why |-> "ast"]} ELSE {})
                          \cup (LET lx == Lex(ev.text) IN
                                IF ev.toks # <<>> /\ lx[1] = "ok" /\ TokDiffers(lx[2], ev.toks) THEN {[line |-> l, why |-> "tokens"]} ELSE {})
                          \cup (IF m[1] = "err" /\ ~real /\ ev.offset >= 0 /\ m[3] >= 0 /\ ev.offset # m[3] THEN {[line |-> l, why |-> "offset"]} ELSE {})
        /\ stats' = [stats EXCEPT !.events = @ + 1, !.unmodelled = @ + (IF m[1] = "unmodelled" THEN 1 ELSE 0)]

(* the same text on a Parser object that has parsed every earlier text of the trace: the verdict (and, as drift, the
   tree) is that of the text alone -- models[ev.h] was computed from the text at the Compile event of the same line pair *)
TraceParse ==
  /\ IsEvent("Parse")
  /\ LET ev == Trace[l]
         m == models[ev.h]
         prev == Trace[l - 1]          \* the Compile event of the same text: a FRESH parser of the real code
         paired == l > 1 /\ prev.op = "Compile" /\ prev.h = ev.h
     IN /\ bad' = bad \cup (IF m[1] \in {"unmodelled"} THEN {}
                            ELSE IF m[1] = "ok" /\ ~ev.ok THEN {[line |-> l, why |-> "reuse-rejects", allowed |-> "ok"]}
                            ELSE IF m[1] = "err" /\ ev.ok THEN {[line |-> l, why |-> "reuse-accepts", allowed |-> "err"]}
                            ELSE {})
                      \* real against real: the reused parser and the fresh parser disagree on the verdict or on the tree
                      \cup (IF paired /\ (prev.ok # ev.ok \/ (prev.ok /\ ev.ok /\ prev.ast # <<>> /\ ev.ast # <<>> /\ prev.ast # ev.ast))
                            THEN {[line |-> l, why |-> "reuse-differs", allowed |-> "fresh"]} ELSE {})
        /\ drift' = drift \cup (IF m[1] = "ok" /\ ev.ok /\ ev.ast # <<>> /\ AstFromJ(ev.ast) # m[2] THEN {[line |-> l, why |-> "reuse-ast"]} ELSE {})
        /\ stats' = [stats EXCEPT !.events = @ + 1]
  /\ UNCHANGED models

ObsOutcome(ev) == IF ev.obs[1] = "ok" THEN Ok(FromJ(ev.obs[2])) ELSE <<ev.obs[1]>>
RECURSIVE RefAsGo(_)
RefAsGo(v) == CASE v[1] = "expref" -> <<"gotype", "jmespath.expRef">>
                [] v[1] = "arr" -> <<"arr", [i \in 1..Len(v[2]) |-> RefAsGo(v[2][i])]>>
                [] v[1] = "obj" -> <<"obj", {<<kv[1], RefAsGo(kv[2])>> : kv \in v[2]}>>
                [] OTHER -> v
AllowedHasOpaque(allowed) == \E o \in allowed : o[1] = "unspec" \/ (o[1] = "ok" /\ HasOpaque(o[2]))
Member(o, allowed) == \/ o \in allowed
                      \/ (NUMORNULL \in allowed /\ o[1] = "ok" /\ o[2][1] \in {"num", "null"})
                      \* an expression reference in the result: the library returns its own (non-JSON) expRef value
                      \/ (o[1] = "ok" /\ \E a \in allowed : a[1] = "ok" /\ o[2] = RefAsGo(a[2]))

TraceSearch ==
  /\ IsEvent("Search")
  /\ LET ev == Trace[l]
         m == models[ev.h]
     IN IF m[1] # "ok"
        THEN /\ UNCHANGED <<bad, drift>> /\ stats' = [stats EXCEPT !.events = @ + 1]
        ELSE LET allowed == Outcomes(m[2], FromJ(ev.doc))
                 o == ObsOutcome(ev)
                 opaque == AllowedHasOpaque(allowed)
             IN /\ bad' = bad \cup (IF opaque \/ Member(o, allowed) THEN {} ELSE {[line |-> l, why |-> "outcome", allowed |-> allowed]})
                             \cup (IF ev.docAfter = ev.doc THEN {} ELSE {[line |-> l, why |-> "docmod", allowed |-> allowed]})
                /\ stats' = [stats EXCEPT !.events = @ + 1, !.searches = @ + 1, !.unspec = @ + (IF opaque THEN 1 ELSE 0)]
                \* the Execute-entry sequence logged by the verifEnter hook against the instrumented semantics (drift only)
                /\ drift' = drift \cup (IF ev.enter # <<>> /\ o[1] \in {"ok", "err"} /\ ~Explained(ev.enter, m[2], FromJ(ev.doc))
                                        THEN {[line |-> l, why |-> "enter"]} ELSE {})
  /\ UNCHANGED models

TraceDone == /\ l = Len(Trace) + 1
             /\ PrintT(<<"BAD", ToJson(bad)>>) /\ PrintT(<<"DRIFT", ToJson(drift)>>) /\ PrintT(<<"STATS", ToJson(stats)>>)
             /\ l' = l + 1 /\ UNCHANGED <<models, bad, drift, stats>>

Next == TraceCompile \/ TraceParse \/ TraceSearch \/ TraceDone
Spec == Init /\ [][Next]_vars
TraceAccepted == TLCGet("stats").diameter = Len(Trace) + 2
=============================================================================
