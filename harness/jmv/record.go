package main

// jmv record: drive the real code and write a trace of API events for validation by TLC (Trace_Api.tla):
// the repository's compliance corpus (every expression compiled once and searched twice on the same
// handle) and a seeded random driver that produces deeper expressions and larger documents than the
// bounded generators. One event per public call, logged at its return (the linearization point of a
// sequential library), with the source text, the document before and after, and the observed outcome.

import (
	"encoding/json"
	"flag"
	"fmt"
	"math/rand"
	"os"
	"path/filepath"
	"reflect"
	"sort"
	"strings"

	jmespath "github.com/jmespath/go-jmespath"
)

// representable: can TLC hold this value (small exact rationals only)?
func representable(t interface{}) bool {
	a, ok := t.([]interface{})
	if !ok {
		return false
	}
	switch a[0].(string) {
	case "null", "bool", "str":
		return true
	case "num":
		p, _ := a[1].(int64)
		q, _ := a[2].(int64)
		return p < 1<<20 && p > -(1<<20) && q < 1<<10
	case "arr":
		for _, x := range a[1].([]interface{}) {
			if !representable(x) {
				return false
			}
		}
		return true
	case "obj":
		for _, kv := range a[1].([]interface{}) {
			if !representable(kv.([]interface{})[1]) {
				return false
			}
		}
		return true
	}
	return false
}

type recorder struct {
	enc      *json.Encoder
	line     int
	h        int
	canaries []map[string]interface{}
	skipped  int
	rng      *rand.Rand

	pevEvery    int
	pevCanaries []int
	parser      *jmespath.Parser
	seen        []seenText
	tokCanaries []int
}

type seenText struct {
	h    int
	text string
}

func (r *recorder) emit(ev map[string]interface{}) int {
	r.line++
	r.enc.Encode(ev)
	return r.line
}

func obsTagged(o Obs) []interface{} {
	switch o.Kind {
	case "ok":
		return []interface{}{"ok", encodeObserved(o.Value)}
	case "err":
		return []interface{}{"err"}
	}
	return []interface{}{o.Kind}
}

// one expression on one document: Compile event, then `reps` Search events on the same handle
func (r *recorder) run(text string, doc interface{}, reps int, canary string) {
	docT := encodeValue(doc)
	if !representable(docT) {
		r.skipped++
		return
	}
	r.h++
	var jp *jmespath.JMESPath
	var cerr error
	var co Obs
	pev := recordParse(func() { jp, cerr, co = compileObs(text) })
	ev := map[string]interface{}{"op": "Compile", "h": r.h, "text": bytesToCps(text), "ok": co.Kind == "ok", "ast": []interface{}{}, "offset": -1, "toks": []interface{}{},
		"pev": []interface{}{}, "hasPev": pev != nil}
	if pev != nil {
		// every 97th compile with parser steps carries a corrupted step sequence: Trace_Parse must report it
		if r.pevEvery > 0 && len(pev) > 0 && r.h%r.pevEvery == 0 {
			pev = append(pev, []interface{}{"nud", "canary"})
			r.pevCanaries = append(r.pevCanaries, r.line+1)
		}
		ev["pev"] = pev
	}
	if direct(func() (interface{}, error) { ev["toks"] = realTokens(text); return nil, nil }).Kind != "ok" {
		ev["toks"] = []interface{}{}
	}
	if tl, ok := ev["toks"].([]interface{}); ok && r.pevEvery > 0 && len(tl) > 0 && r.h%r.pevEvery == r.pevEvery/2 {
		// a corrupted token stream (position of the first token shifted): the lexer machine must report it
		if t0, ok := tl[0].([]interface{}); ok && len(t0) == 4 {
			c := append([]interface{}{}, t0...)
			c[2] = toInt(c[2]) + 1
			tl2 := append([]interface{}{c}, tl[1:]...)
			ev["toks"] = tl2
			r.tokCanaries = append(r.tokCanaries, r.line+1)
		}
	}
	if se, ok := cerr.(jmespath.SyntaxError); ok {
		ev["offset"] = se.Offset
	}
	if co.Kind == "ok" {
		ev["ast"] = realAST(jp)
	}
	if co.Kind == "panic" {
		ev["ok"] = false
		ev["panic"] = co.Err
	}
	r.emit(ev)
	if r.parser != nil {
		// the same text on ONE Parser object that is reused for every text of the trace (C13: the verdict and the
		// tree are a function of the text, whatever the parser saw before)
		var node jmespath.ASTNode
		po := direct(func() (interface{}, error) {
			var err error
			node, err = r.parser.Parse(text)
			return nil, err
		})
		pe := map[string]interface{}{"op": "Parse", "h": r.h, "text": bytesToCps(text), "ok": po.Kind == "ok", "ast": []interface{}{}}
		if po.Kind == "ok" {
			if direct(func() (interface{}, error) { pe["ast"] = nodeAST(node); return nil, nil }).Kind != "ok" {
				pe["ast"] = []interface{}{}
			}
		}
		if po.Kind == "panic" {
			pe["panic"] = po.Err
		}
		if r.h%211 == 0 { // canary: a flipped verdict must be reported by Trace_Api
			pe["ok"] = !(po.Kind == "ok")
			pe["ast"] = []interface{}{}
			r.canaries = append(r.canaries, map[string]interface{}{"line": r.line + 1, "kind": "parse"})
		}
		r.emit(pe)
		// ... and an EARLIER text of the trace once more on the same Parser (a parser that remembers texts must not answer differently)
		r.seen = append(r.seen, seenText{r.h, text})
		if len(r.seen) > 3 && r.rng.Intn(3) == 0 {
			old := r.seen[r.rng.Intn(len(r.seen))]
			var n2 jmespath.ASTNode
			po2 := direct(func() (interface{}, error) {
				var err error
				n2, err = r.parser.Parse(old.text)
				return nil, err
			})
			pe2 := map[string]interface{}{"op": "Parse", "h": old.h, "text": bytesToCps(old.text), "ok": po2.Kind == "ok", "ast": []interface{}{}}
			if po2.Kind == "ok" {
				if direct(func() (interface{}, error) { pe2["ast"] = nodeAST(n2); return nil, nil }).Kind != "ok" {
					pe2["ast"] = []interface{}{}
				}
			}
			r.emit(pe2)
		}
	}
	if jp == nil {
		return
	}
	for rep := 0; rep < reps; rep++ {
		before := encodeValue(doc)
		var o Obs
		enters := recordEnters(func() { o = direct(func() (interface{}, error) { return jp.Search(doc) }) })
		after := encodeValue(doc)
		obs := obsTagged(o)
		if o.Kind == "ok" {
			if a, ok := obs[1].([]interface{}); ok && !representable(a) && fmt.Sprint(a[0]) != "numfloat" && !strings.HasPrefix(fmt.Sprint(a[0]), "n") {
				// results with large numbers are outside TLC's integers: skip the event
				if hasBigNum(a) {
					r.skipped++
					continue
				}
			}
		}
		isCanary := ""
		if canary != "" && rep == reps-1 {
			isCanary = canary
			switch canary {
			case "obs":
				obs = []interface{}{"ok", []interface{}{"str", stringToCps("☃canary")}}
			case "doc":
				after = []interface{}{"str", stringToCps("☃canary")}
			}
		}
		if enters == nil {
			enters = []string{}
		}
		ln := r.emit(map[string]interface{}{"op": "Search", "h": r.h, "doc": before, "docAfter": after, "obs": obs, "enter": enters})
		if isCanary != "" {
			r.canaries = append(r.canaries, map[string]interface{}{"line": ln, "kind": isCanary})
		}
	}
}

func hasBigNum(t []interface{}) bool {
	switch t[0].(string) {
	case "num":
		p, _ := t[1].(int64)
		q, _ := t[2].(int64)
		return p >= 1<<20 || p <= -(1<<20) || q >= 1<<10
	case "numfloat":
		return true
	case "arr":
		for _, x := range t[1].([]interface{}) {
			if hasBigNum(x.([]interface{})) {
				return true
			}
		}
	case "obj":
		for _, kv := range t[1].([]interface{}) {
			if hasBigNum(kv.([]interface{})[1].([]interface{})) {
				return true
			}
		}
	}
	return false
}

// ---- seeded random driver: syntax only (no semantics on the Go side) -----------------------------

var rndNames = []string{"a", "b", "c", "foo", "bar", "\"with space\"", "\"é\"", "_x1"}
var rndFuncs1 = []string{"abs", "avg", "ceil", "floor", "keys", "length", "max", "min", "reverse", "sort", "sum", "to_array", "to_string", "to_number", "type", "values", "not_null"}
var rndLits = []string{"`1`", "`0`", "`-1`", "`0.5`", "`\"a\"`", "`null`", "`true`", "`false`", "`[]`", "`{}`", "`[1,2]`", "`{\"a\":1}`", "'a'", "''", "'b c'", "'it\\'s'", "'\\''"}
var rndCmp = []string{"==", "!=", "<", "<=", ">", ">="}

func (r *recorder) expr(depth int) string {
	g := r.rng
	if depth <= 0 {
		switch g.Intn(6) {
		case 0:
			return "@"
		case 1:
			return rndLits[g.Intn(len(rndLits))]
		case 2:
			return fmt.Sprintf("[%d]", g.Intn(5)-2)
		default:
			return rndNames[g.Intn(len(rndNames))]
		}
	}
	sub := func() string { return r.expr(depth - 1 - g.Intn(2)) }
	name := func() string { return rndNames[g.Intn(len(rndNames))] }
	switch g.Intn(22) {
	case 0:
		return sub() + "." + name()
	case 1:
		return sub() + fmt.Sprintf("[%d]", g.Intn(6)-3)
	case 2:
		return sub() + " | " + sub()
	case 3:
		return sub() + " || " + sub()
	case 4:
		return sub() + " && " + sub()
	case 5:
		return "!" + sub()
	case 6:
		return "(" + sub() + ")"
	case 7:
		return sub() + " " + rndCmp[g.Intn(len(rndCmp))] + " " + sub()
	case 8:
		return sub() + "[*]." + name()
	case 9:
		return sub() + "[]"
	case 10:
		return sub() + "[?" + sub() + "]"
	case 11:
		return sub() + ".*"
	case 12:
		parts := []string{"", "", ""}
		for i := range parts {
			if g.Intn(2) == 0 {
				parts[i] = fmt.Sprint(g.Intn(7) - 3)
			}
		}
		if parts[2] == "0" {
			parts[2] = "2"
		}
		return sub() + "[" + parts[0] + ":" + parts[1] + ":" + parts[2] + "]"
	case 13:
		return "[" + sub() + ", " + sub() + "]"
	case 14:
		return "{" + strings.Trim(name(), "\"é ") + "k: " + sub() + ", b: " + sub() + "}"
	case 15:
		return rndFuncs1[g.Intn(len(rndFuncs1))] + "(" + sub() + ")"
	case 16:
		return []string{"sort_by", "max_by", "min_by"}[g.Intn(3)] + "(" + sub() + ", &" + sub() + ")"
	case 17:
		return "map(&" + sub() + ", " + sub() + ")"
	case 18:
		return []string{"contains", "starts_with", "ends_with", "join", "merge", "not_null"}[g.Intn(6)] + "(" + sub() + ", " + sub() + ")"
	case 19:
		return sub() + ".[" + sub() + "]"
	case 20:
		return sub() + ".{k: " + sub() + "}"
	default:
		return sub() + "." + name() + "." + name()
	}
}

func (r *recorder) value(depth int) interface{} {
	g := r.rng
	k := g.Intn(9)
	if depth <= 0 && k >= 6 {
		k = g.Intn(6)
	}
	switch k {
	case 0:
		return nil
	case 1:
		return g.Intn(2) == 0
	case 2:
		return float64(g.Intn(9) - 3)
	case 3:
		return float64(g.Intn(9)-3) / 2
	case 4:
		return []string{"", "a", "b", "ab", "é", "b c", "1", "x"}[g.Intn(8)]
	case 5:
		return float64(g.Intn(3))
	case 6, 7:
		n := g.Intn(5)
		out := make([]interface{}, n)
		for i := range out {
			out[i] = r.value(depth - 1)
		}
		return out
	default:
		n := g.Intn(4)
		out := map[string]interface{}{}
		keys := []string{"a", "b", "c", "foo", "bar", "with space", "é", "_x1", "k", "ak"}
		for i := 0; i < n; i++ {
			out[keys[g.Intn(len(keys))]] = r.value(depth - 1)
		}
		return out
	}
}

func cmdRecord(args []string) int {
	fs := flag.NewFlagSet("record", flag.ExitOnError)
	out := fs.String("out", "", "trace file (ndjson)")
	meta := fs.String("meta", "", "side file: canary lines, counters (JSON)")
	seed := fs.Int64("seed", 1, "seed of the random driver")
	n := fs.Int("n", 500, "number of random (expression, document) pairs")
	repo := fs.String("repo", "/repo", "repository (compliance corpus)")
	corpus := fs.Bool("corpus", true, "include the compliance corpus")
	canEvery := fs.Int("canary-every", 400, "inject a canary every N expressions")
	pevEvery := fs.Int("pev-canary-every", 0, "corrupt the logged parser steps of every Nth compile (Trace_Parse must report each)")
	reuse := fs.Bool("reuse-parser", false, "also parse every text on one reused Parser object (op Parse)")
	mutants := fs.Int("mutants", 0, "number of near-miss texts (one character deleted / inserted / replaced) that are only compiled")
	fs.Parse(args)
	f, err := os.Create(*out)
	if err != nil {
		fmt.Fprintln(os.Stderr, err)
		return 2
	}
	defer f.Close()
	r := &recorder{enc: json.NewEncoder(f), rng: rand.New(rand.NewSource(*seed)), pevEvery: *pevEvery}
	if *reuse {
		r.parser = jmespath.NewParser()
	}
	count := 0
	can := func() string {
		count++
		if *canEvery > 0 && count%*canEvery == 0 {
			if (count/(*canEvery))%2 == 0 {
				return "doc"
			}
			return "obs"
		}
		return ""
	}
	if *corpus {
		files, _ := filepath.Glob(filepath.Join(*repo, "compliance", "*.json"))
		sort.Strings(files)
		for _, fn := range files {
			b, _ := os.ReadFile(fn)
			var suites []struct {
				Given interface{} `json:"given"`
				Cases []struct {
					Expression string `json:"expression"`
				} `json:"cases"`
			}
			if json.Unmarshal(b, &suites) != nil {
				continue
			}
			for _, s := range suites {
				for _, c := range s.Cases {
					r.run(c.Expression, deepCopy(s.Given), 2, can())
				}
			}
		}
	}
	for i := 0; i < *n; i++ {
		e := r.expr(2 + r.rng.Intn(4))
		d := r.value(3)
		r.run(e, d, 1+r.rng.Intn(2), can())
	}
	const punct = ".[]()*|&,:{}?!<>=@`'\" 0a-"
	for i := 0; i < *mutants; i++ {
		e := []byte(r.expr(2 + r.rng.Intn(4)))
		if len(e) == 0 {
			continue
		}
		k := r.rng.Intn(len(e))
		kind := r.rng.Intn(4)
		if idx := strings.Index(string(e), "\\'"); idx >= 0 && r.rng.Intn(2) == 0 {
			// cut inside a raw string just after an escaped quote: an unclosed literal that has already written to the lexer's buffer
			e = e[:idx+2]
			kind = -1
		}
		switch kind {
		case -1:
		case 0:
			e = append(e[:k:k], e[k+1:]...)
		case 3:
			e = e[:k+1] // an incomplete text: a prefix
		case 1:
			e = append(e[:k:k], append([]byte{punct[r.rng.Intn(len(punct))]}, e[k:]...)...)
		default:
			e[k] = punct[r.rng.Intn(len(punct))]
		}
		r.run(string(e), nil, 1, "")
	}
	if *meta != "" {
		b, _ := json.Marshal(map[string]interface{}{"canaries": r.canaries, "pev_canaries": r.pevCanaries, "tok_canaries": r.tokCanaries, "lines": r.line, "skipped_unrepresentable": r.skipped, "handles": r.h})
		os.WriteFile(*meta, b, 0o644)
	}
	_ = reflect.DeepEqual
	return 0
}

func toInt(v interface{}) int {
	switch x := v.(type) {
	case int:
		return x
	case int64:
		return int(x)
	case float64:
		return int(x)
	}
	return 0
}
