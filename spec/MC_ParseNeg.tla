---------------------------- MODULE MC_ParseNeg ----------------------------
(* Witness sentences for the named deviations of the parser.  With Dev = {} every witness behaves as the
   grammar demands (Holds is an invariant); with the corresponding switch in Dev the invariant fails --
   the negative control that shows the Pratt machine really carries the rule that forbids it. *)
EXTENDS Parser
UT(x) == <<"uid", x>>
a == <<97>>
N0 == <<"number", 0>>
Witnesses == <<
  [dev |-> "ArgsNoComma", toks |-> <<UT(a), T("lparen"), UT(a), UT(a), T("rparen")>>],
  [dev |-> "ArgsNoComma", toks |-> <<UT(a), T("lparen"), UT(a), T("comma"), T("rparen")>>],
  [dev |-> "HashNoComma", toks |-> <<T("lbrace"), UT(a), T("colon"), UT(a), UT(a), T("colon"), UT(a), T("rbrace")>>],
  [dev |-> "LaxSlice", toks |-> <<T("lbracket"), T("colon"), N0, N0, T("rbracket")>>],
  [dev |-> "LaxSlice", toks |-> <<T("lbracket"), N0, T("colon"), N0, T("colon"), N0, T("colon"), T("rbracket")>>],
  [dev |-> "NudSwallowsBracketError", toks |-> <<T("lbracket"), N0>>],
  [dev |-> "NudSwallowsBracketError", toks |-> <<T("lbracket"), N0, T("colon")>>],
  [dev |-> "AnyCallee", toks |-> <<T("lparen"), UT(a), T("rparen"), T("lparen"), UT(a), T("rparen")>>] >>
VARIABLE w
Init == w \in 1..Len(Witnesses)
Next == UNCHANGED w
Spec == Init /\ [][Next]_w
Holds == /\ ~Grammatical(Witnesses[w].toks)
         /\ ParseToks(Witnesses[w].toks)[1] = "err"
(* a.*.a.a : the right-hand side of the object wildcard extends over both fields *)
VPTree == ParseToks(<<UT(a), T("dot"), T("star"), T("dot"), UT(a), T("dot"), UT(a)>>) = <<"ok", VProj(Field(a), Sub(Field(a), Field(a)))>>
=============================================================================
