----------------------------- MODULE Families -----------------------------
(* The bounded universes ("families") of expressions and documents, shared by the model-checking
   modules MC_xxx (which check the properties on the specification) and the generators Gen_xxx
   (which emit the same universes, with the allowed outcomes, for replay against the real code).

   Large universes are never built as TLA+ sets (TLC normalises sets of deep tuples very slowly):
   level-1 expressions are an explicit sequence L1; deeper expressions are *decoded from an index*
   through a list of schemas  Wrap(s, x, k)  (x an expression, k the index of an operand in a small
   pool).  With S = number of (schema, operand) codes, the index space is
       0 .. N1-1               L1 itself                      (if EmitL1)
       then N1*S               Wrap(c1, L1[x])                (Depth >= 2)
       then N1*S*S             Wrap(c2, Wrap(c1, L1[x]))      (Depth >= 3)                      *)
EXTENDS GoValues, SequencesExt

CONSTANT Family

LitA == Lit(S(cA))
LitQ == Lit(S(<<105, 116, 39, 115>>))          \* it's : spelled 'it\'s' as a raw string
IdxI(n) == IdxE(Identity, Index(n))
IdxL(l, n) == IdxE(l, Index(n))
FieldsQ == <<fA, fB, fC, fE>>
IdxsQ == <<0, 1, -1, -2, 5>>
SeqSet(s) == {s[i] : i \in 1..Len(s)}
O3x(va, vb, vc) == Obj({<<cA, va>>, <<cB, vb>>, <<cC, vc>>})
SliceOf(x, a, b, c) == Proj(IdxE(x, SliceN(a, b, c)), Identity)
C1(name, a) == IF name = "nosuchfn" THEN Fn(<<110, 111, 115, 117, 99, 104>>, <<a>>) ELSE Call1(name, a)
C2(name, a, b) == Call2(name, a, b)
ErrAbs == C1("abs", LitA)                       \* abs('a'): invalid type, always an error
ErrUnknown == Fn(<<110, 111, 115, 117, 99, 104>>, <<Current>>)   \* nosuch(@)
ErrArity == Fn(NameCps["abs"], <<>>)            \* abs()
ErrStep0 == SliceOf(Current, NoneP, NoneP, IntP(0))              \* @[::0] : error on arrays only

(* ---------------- C01: core fragment ------------------------------------------------------ *)
CoreLeaves == SeqSet(FieldsQ) \cup {IdxI(IdxsQ[n]) : n \in 1..Len(IdxsQ)}
              \cup {Current, Lit(I(1)), LitA, Lit(Null), Lit(A0), Lit(O1(cA, I(1))), Lit(A2(I(1), S(cB))), LitQ}
CorePool == <<fA, fB, fC, IdxI(0), IdxI(-1), Current, Lit(I(1)), Lit(O1(cA, I(1))), Lit(A2(I(1), S(cB))), LitQ>>
CoreNS == 14
CoreDim(s) == CASE s = 1 -> Len(FieldsQ) [] s = 2 -> Len(IdxsQ) [] s \in {5, 8} -> 1 [] OTHER -> Len(CorePool)
CoreWrap(s, x, k) ==
  LET r == CorePool[k] IN
  CASE s = 1 -> Sub(x, FieldsQ[k])
    [] s = 2 -> IdxL(x, IdxsQ[k])
    [] s = 3 -> Pipe(x, r)
    [] s = 4 -> Pipe(r, x)
    [] s = 5 -> MSL(<<x>>)
    [] s = 6 -> MSL(<<x, r>>)
    [] s = 7 -> MSL(<<r, x>>)
    [] s = 8 -> MSH(<<KV(cA, x)>>)
    [] s = 9 -> MSH(<<KV(cA, x), KV(cB, r)>>)
    [] s = 10 -> MSH(<<KV(cA, r), KV(cA, x)>>)
    [] s = 11 -> Sub(r, MSL(<<x>>))
    [] s = 12 -> Sub(r, MSH(<<KV(cB, x)>>))
    [] s = 13 -> Sub(Sub(r, fA), x)
    [] s = 14 -> Pipe(Pipe(r, x), fA)
CoreL1 == SetToSeq(CoreLeaves \cup UNION {{CoreWrap(s, x, k) : k \in 1..CoreDim(s)} : s \in 1..CoreNS, x \in CoreLeaves})

(* ---------------- C02: projections -------------------------------------------------------- *)
ProjBases == {Identity, fA, fB, Current}
ProjRhs == <<Identity, fA, fB, IdxI(0), IdxI(-1), MSL(<<fA, fB>>), C1("type", Current), C1("not_null", fA),
             C1("abs", Current), C1("length", Current), Proj(Identity, Identity), VProj(Identity, Identity)>>
ProjConds == <<fA, Cmp("eq", fA, Lit(I(1))), Cmp("gt", Current, Lit(I(1))), Current, Not(fB)>>
ProjSlices == << <<NoneP, NoneP, IntP(2)>>, <<IntP(1), NoneP, NoneP>>, <<NoneP, IntP(-1), NoneP>>, <<NoneP, NoneP, IntP(-1)>> >>
ProjL1 == SetToSeq(
      {Proj(b, r) : b \in ProjBases, r \in SeqSet(ProjRhs)}
 \cup {Proj(Flat(b), r) : b \in ProjBases, r \in SeqSet(ProjRhs)}
 \cup {Filt(b, r, c) : b \in ProjBases, r \in SeqSet(ProjRhs), c \in SeqSet(ProjConds)}
 \cup {Proj(IdxE(b, <<"Slice", p>>), r) : b \in ProjBases, r \in SeqSet(ProjRhs), p \in SeqSet(ProjSlices)}
 \cup {VProj(b, r) : b \in ProjBases, r \in SeqSet(ProjRhs)})
ProjPool == <<Identity, fA, fB, IdxI(0), MSL(<<fA>>), C1("type", Current), C1("abs", Current), Current, Lit(I(1)), Lit(A0)>>
ProjNS == 19
ProjDim(s) == CASE s \in {1, 2, 4} -> 7 [] s = 3 -> Len(ProjConds) [] s \in {5, 18} -> 7 [] s = 6 -> 3 [] s \in {7, 8} -> 3
                [] s = 9 -> 3 [] s = 11 -> 2 [] OTHER -> 1
ProjWrap(s, x, k) ==
  LET r == ProjPool[k] IN
  CASE s = 1 -> Proj(x, r)
    [] s = 2 -> Proj(Flat(x), r)
    [] s = 3 -> Filt(x, Identity, ProjConds[k])
    [] s = 4 -> VProj(x, r)
    [] s = 5 -> Pipe(x, <<fA, fB, IdxI(0), Current, Proj(Identity, Identity), Proj(Flat(Identity), Identity), C1("length", Current)>>[k])
    [] s = 6 -> IdxL(x, <<0, -1, 1>>[k])
    [] s = 7 -> Or(x, <<fA, Lit(I(1)), Lit(A0)>>[k])
    [] s = 8 -> And(x, <<fA, Lit(I(1)), Lit(A0)>>[k])
    [] s = 9 -> Cmp("eq", x, <<Lit(A0), Lit(Null), Lit(A1(I(1)))>>[k])
    [] s = 10 -> Not(x)
    [] s = 11 -> Sub(x, <<fA, MSL(<<fA>>)>>[k])
    [] s = 12 -> Proj(fB, x)
    [] s = 13 -> Proj(Flat(fA), x)
    [] s = 14 -> Filt(fB, x, fA)
    [] s = 15 -> VProj(fA, x)
    [] s = 16 -> MSL(<<x, fA>>)
    [] s = 17 -> C1("length", x)
    [] s = 18 -> Pipe(<<fA, fB, IdxI(0), Current, Proj(Identity, Identity), Proj(Flat(Identity), Identity), VProj(Identity, Identity)>>[k], x)
    [] s = 19 -> Proj(Flat(Proj(Flat(x), Identity)), Identity)
PM == {A0, A3(I(1), Null, S(cA)), A3(A2(I(1), I(2)), A1(I(3)), A0), A2(A1(A1(I(1))), A1(Null)),
       A3(O2(cA, I(1), cB, A2(I(1), I(2))), O1(cA, Null), O1(cB, I(2))),
       O2(cA, O1(cA, I(1)), cB, O1(cA, I(2))), O0, Null, S(cAB),
       A2(O1(cA, A1(O1(cA, I(1)))), O1(cA, A0)), O2(cA, A2(I(1), I(2)), cB, Null), A2(I(2), I(3))}
PMQ == {A0, A3(I(1), Null, S(cA)), A3(A2(I(1), I(2)), A1(I(3)), A0), A2(A1(A1(I(1))), A1(Null)),
        A3(O2(cA, I(1), cB, A2(I(1), I(2))), O1(cA, Null), O1(cB, I(2))),
        O2(cA, O1(cA, I(1)), cB, O1(cA, I(2))), Null, A2(O1(cA, A1(O1(cA, I(1)))), O1(cA, A0))}
DocsProj == {O2(cA, x, cB, y) : x \in (IF Thorough THEN PM ELSE PMQ), y \in (IF Thorough THEN PM ELSE PMQ)}
            \cup {A0, O0, Null, I(1), S(cA), A3(I(3), I(1), I(2)), A2(A2(I(1), I(2)), A2(A1(I(3)), Null)),
                  A3(O1(cA, I(1)), O2(cA, I(2), cB, I(1)), O1(cB, I(3))), O2(cA, O1(cA, I(1)), cB, O1(cB, I(2))),
                  O2(cA, A2(I(1), I(2)), cB, A1(I(3))), A2(O1(cA, A2(I(1), I(2))), O1(cA, A1(I(3))))}

(* ---------------- C07: truthiness, logical operators, comparators ------------------------- *)
V7 == IF Thorough THEN Scal \cup LookAlikes \cup {O1(cA, Null), O1(cB, Null), O2(cA, Null, cB, I(1)), O2(cA, I(1), cC, Null), BigV(1), BigV(2), A2(I(1), I(2)), A2(I(2), I(1)), O1(cA, I(1)), O1(cA, S(<<49>>)), O2(cA, I(1), cB, I(2)), O1(cB, I(1)), A1(O0)}
      ELSE ScalCore \cup {I(2), Half, S(cB), S(<<49>>), S(<<48>>), S(<<116, 114, 117, 101>>), A0, O0, A1(I(1)), A1(S(<<49>>)), A1(Null), A2(I(1), I(2)), O1(cA, I(1)), O1(cA, S(<<49>>)), O1(cA, Null), O1(cB, Null), O2(cA, Null, cB, I(1)), O2(cB, I(1), cC, Null), BigV(1)}
V7Seq == SetToSeq(V7)
CmpSeq == <<"eq", "ne", "lt", "lte", "gt", "gte">>
OpL1 == SetToSeq({Lit(v) : v \in V7} \cup {ErrAbs})
OpNS == 17
OpDim(s) == IF s = 17 THEN 1 ELSE Len(V7Seq) + 1      \* the extra operand is the erroring expression
OpOperand(k) == IF k <= Len(V7Seq) THEN Lit(V7Seq[k]) ELSE ErrAbs
OpWrap(s, x, k) ==
  LET r == OpOperand(k) IN
  CASE s \in 1..6 -> Cmp(CmpSeq[s], x, r)
    [] s \in 7..12 -> Cmp(CmpSeq[s - 6], r, x)
    [] s = 13 -> Or(x, r)
    [] s = 14 -> Or(r, x)
    [] s = 15 -> And(x, r)
    [] s = 16 -> And(r, x)
    [] s = 17 -> Not(x)
(* the same operators with both operands taken from the document, also inside filter conditions *)
OpDocL1 == SetToSeq(
      {Cmp(op, fA, fB) : op \in CmpOps} \cup {Not(Cmp(op, fA, fB)) : op \in CmpOps} \cup {Not(Or(fA, fB)), Not(And(fA, fB)), Or(Not(fA), fB), And(Cmp("lt", fA, fB), fA)}
 \cup {Or(fA, fB), And(fA, fB), Not(fA), Not(Not(fA)), Or(fA, ErrAbs), And(fA, ErrAbs)}
 \cup {Filt(Identity, Identity, Not(Cmp(op, fA, fB))) : op \in {"lt", "gte", "eq"}}
 \cup {Filt(Identity, Identity, Cmp(op, fA, fB)) : op \in CmpOps}
 \cup {Filt(Identity, fA, c) : c \in {Or(fA, fB), And(fA, fB), Not(fA), fA, Or(fA, ErrAbs)}}
 \cup {Filt(Identity, Identity, Cmp(op, fA, Lit(I(1)))) : op \in CmpOps})
DocsOp == {O2(cA, x, cB, y) : x \in V7, y \in V7}
          \cup {A3(O2(cA, x, cB, y), O2(cA, y, cB, x), O2(cA, x, cB, x)) : x \in V7, y \in V7}

(* ---------------- C09 / C10: built-in functions ------------------------------------------- *)
NumsQ == {I(-1), I(0), I(1), I(2), Half}
StrsA == {S(cEmpty), S(cA), S(cB), S(cAB), S(cEacute), S(cClef)}
Chars4 == {97, 98, 233, 119070}
Strs2 == {S(<<>>)} \cup {S(<<c>>) : c \in Chars4} \cup {S(<<c, d>>) : c \in Chars4, d \in Chars4}
Strs3ab == {S(<<>>)} \cup {S(<<c>>) : c \in {97, 98}} \cup {S(<<c, d>>) : c \in {97, 98}, d \in {97, 98}}
           \cup {S(<<c, d, e>>) : c \in {97, 98}, d \in {97, 98}, e \in {97, 98}}
ObjElems == {O2(cA, I(1), cB, S(<<120>>)), O2(cA, I(1), cB, S(<<121>>)), O2(cA, I(0), cB, S(<<122>>)), O1(cA, S(<<115>>)), O1(cB, I(1))}
FnObjs == {O0, O1(cA, I(1)), O2(cA, I(1), cB, I(2)), O1(cB, I(3)), O2(cA, S(<<120>>), cC, Null), O1(cA, O1(cA, I(1)))}
FnMixed == {BigV(1), BigV(2), BigV(3), A2(BigV(1), I(1)), A2(I(2), BigV(2)), A2(I(1), S(cA)), A1(Null), A2(A1(I(1)), A1(I(2))), A1(Bool(TRUE)), A2(A1(I(1)), I(1)), A2(O0, O0), A3(I(2), I(10), I(1)), A3(S(<<49, 48>>), S(<<57>>), S(<<65>>))}
FnNumStrs == {S(<<49>>), S(<<45, 49>>), S(<<49, 46, 53>>), S(<<48, 46, 50, 53>>), S(<<49, 50>>), S(<<48>>), S(<<45, 48, 46, 53>>),
              S(<<43, 49>>), S(<<46, 53>>), S(<<48, 49>>), S(<<49, 95, 48>>), S(<<49, 101, 50>>), S(<<32, 49>>), S(<<49, 32>>),
              S(<<105, 110, 102>>), S(<<110, 97, 110>>), S(<<73, 110, 102, 105, 110, 105, 116, 121>>), S(<<45, 105, 110, 102>>),
              S(<<49, 101, 52, 48, 48>>), S(<<48, 120, 49, 112, 45, 50>>), S(<<120>>), S(<<116, 114, 117, 101>>), S(<<45>>), S(<<49, 46>>)}
FnVals == IF Thorough
          THEN Scal \cup Arrs3Over(NumsQ) \cup Arrs3Over(StrsA) \cup Strs2 \cup Strs3ab \cup FnObjs \cup Arrs3Over(ObjElems) \cup FnMixed \cup FnNumStrs
          ELSE Scal \cup ArrsOver(NumsQ) \cup {A3(I(2), Half, I(-1)), A3(I(1), I(1), I(0))} \cup ArrsOver(StrsA) \cup {A3(S(cB), S(cAB), S(cA))}
               \cup Strs3ab \cup {S(<<233, 97>>), S(<<119070, 233>>)} \cup FnObjs \cup ArrsOver(ObjElems)
               \cup {A3(O2(cA, I(1), cB, S(<<120>>)), O2(cA, I(0), cB, S(<<122>>)), O2(cA, I(1), cB, S(<<121>>)))} \cup FnMixed \cup FnNumStrs
FnL1 == SetToSeq({Lit(v) : v \in FnVals})
OneArg == <<"abs", "avg", "ceil", "floor", "keys", "length", "max", "min", "reverse", "sort", "sum", "to_array", "to_string",
            "to_number", "type", "values", "not_null", "merge">>
StrOps == SetToSeq({Lit(v) : v \in Strs3ab \cup {S(cEacute), S(<<233, 97>>), S(cClef)}})
KeyExprs == <<Current, fA, fB, IdxI(0), C1("length", Current), C1("to_number", fA), Lit(Null), Lit(I(1)), C1("abs", fA), C1("to_string", fA)>>
SecondArgs == <<Lit(Null), Lit(I(1)), Lit(S(cA)), Lit(A0), Lit(A1(I(1))), Lit(A1(S(cA))), Lit(O0), Lit(O1(cA, I(2))), Lit(O1(cB, I(9))), Lit(Bool(FALSE)),
                Lit(A2(I(1), I(2))), Ref(fA)>>
Seps == <<Lit(S(cEmpty)), Lit(S(<<44>>)), Lit(S(cEacute)), Lit(I(1))>>
FnNS == 33
FnDim(s) == CASE s <= 18 -> 1 [] s = 19 -> 1 [] s \in 20..22 -> Len(StrOps) [] s = 23 -> Len(SecondArgs) [] s = 24 -> Len(SecondArgs)
              [] s = 25 -> Len(Seps) [] s \in 26..29 -> Len(KeyExprs) [] s \in 30..33 -> Len(SecondArgs)
FnWrap(s, x, k) ==
  CASE s <= 18 -> C1(OneArg[s], x)
    [] s = 19 -> Pipe(x, C1("length", Current))
    [] s = 20 -> C2("contains", x, StrOps[k])
    [] s = 21 -> C2("starts_with", x, StrOps[k])
    [] s = 22 -> C2("ends_with", x, StrOps[k])
    [] s = 23 -> C2("contains", x, SecondArgs[k])
    [] s = 24 -> C2("contains", SecondArgs[k], x)
    [] s = 25 -> C2("join", Seps[k], x)
    [] s = 26 -> C2("map", Ref(KeyExprs[k]), x)
    [] s = 27 -> C2("sort_by", x, Ref(KeyExprs[k]))
    [] s = 28 -> C2("max_by", x, Ref(KeyExprs[k]))
    [] s = 29 -> C2("min_by", x, Ref(KeyExprs[k]))
    [] s = 30 -> C2("merge", x, SecondArgs[k])
    [] s = 31 -> C2("merge", SecondArgs[k], x)
    [] s = 32 -> C2("not_null", x, SecondArgs[k])
    [] s = 33 -> C2("not_null", SecondArgs[k], x)
(* nesting a call in the other constructs (the call reads the document) *)
FnNestL1 == SetToSeq(UNION {{C1(OneArg[s], a) : s \in 1..Len(OneArg)} : a \in {fA, Current}}
                     \cup {C2("sort_by", fA, Ref(fA)), C2("max_by", fA, Ref(fA)), C2("map", Ref(fA), fA), C2("contains", fA, Lit(I(1))),
                           C2("join", Lit(S(<<44>>)), fA), C2("starts_with", fA, LitA), C2("merge", fA, Lit(O1(cB, I(2))))})
FnNestNS == 12
FnNestDim(s) == 1
FnNestWrap(s, x, k) ==
  CASE s = 1 -> Proj(fB, x)            \* b[*].f(..)
    [] s = 2 -> Filt(fB, Identity, x)  \* b[?f(..)]
    [] s = 3 -> MSL(<<x, fA>>)
    [] s = 4 -> MSH(<<KV(cA, x)>>)
    [] s = 5 -> C1("to_array", x)
    [] s = 6 -> C1("type", x)
    [] s = 7 -> Pipe(x, C1("type", Current))
    [] s = 8 -> Not(x)
    [] s = 9 -> Or(x, LitA)
    [] s = 10 -> Cmp("eq", x, Lit(Null))
    [] s = 11 -> Sub(fB, x)            \* b.f(..)
    [] s = 12 -> VProj(Identity, x)    \* *.f(..)
FnDocVals == {I(1), I(-1), Half, S(cAB), S(cEmpty), A0, A3(I(2), Half, I(-1)), A2(S(cB), S(cA)), A2(I(1), S(cA)), O0, O2(cA, I(1), cB, I(2)), Null,
              Bool(TRUE), A2(O1(cA, I(2)), O1(cA, I(1))), A2(O1(cA, S(cB)), O1(cA, S(cA)))}
DocsFnNest == {O2(cA, x, cB, y) : x \in FnDocVals, y \in {A2(O1(cA, I(-1)), O1(cA, S(cA))), A2(I(1), S(cAB)), O1(cA, I(1)), A0, A2(A1(I(1)), A1(I(2)))}} \cup FnDocVals

(* larger arrays with tied keys: stability of sort / sort_by, first extremal element of max_by / min_by, on lengths
   where library sort routines switch algorithms (12 / 13, 20, 33 elements) *)
BigElem(i) == Obj({<<cA, I(i % 3)>>, <<cB, S(<<97 + (i % 2)>>)>>, <<<<105, 100>>, I(i)>>})
BigArr(n) == Arr([i \in 1..n |-> BigElem(i)])
BigNums(n) == Arr([i \in 1..n |-> I((i * 7) % 5)])
BigStrs(n) == Arr([i \in 1..n |-> S(<<97 + ((i * 5) % 3), 97 + (i % 2)>>)])
FnBigL1 == SetToSeq({C2(f, Current, Ref(k)) : f \in {"sort_by", "max_by", "min_by"}, k \in {fA, fB, Field(<<105, 100>>), Current, C1("to_string", fA)}}
                    \cup {C1(f, Current) : f \in {"sort", "reverse", "max", "min", "length", "sum", "avg"}}
                    \cup {C2("map", Ref(fA), Current), Proj(Current, fA), SliceOf(Current, NoneP, NoneP, IntP(-1)), SliceOf(Current, IntP(1), NoneP, IntP(3)),
                          Filt(Current, Field(<<105, 100>>), Cmp("eq", fA, Lit(I(1)))), Pipe(C2("sort_by", Current, Ref(fA)), Proj(Identity, Field(<<105, 100>>))),
                          Pipe(C2("sort_by", Current, Ref(fB)), Proj(Identity, Field(<<105, 100>>))), C2("join", Lit(S(<<44>>)), Current), C1("sort", Proj(Current, fB)),
                          Pipe(Proj(Current, fA), C1("sort", Current)), Pipe(Proj(Current, fB), C1("max", Current)), Proj(Flat(MSL(<<Current, Current>>)), Field(<<105, 100>>))})
DocsFnBig == {BigArr(n) : n \in {12, 13, 20, 33}} \cup {BigNums(n) : n \in {13, 21}} \cup {BigStrs(n) : n \in {13, 21}}

(* C10: the full matrix name x arity x argument-type tuple, decoded from the index *)
Reps == <<Lit(Null), Lit(Bool(TRUE)), Lit(I(0)), Lit(S(cA)), Lit(A0), Lit(A1(I(1))), Lit(A1(S(cA))), Lit(A2(A1(I(1)), O0)), Lit(O0), Lit(O1(cA, I(1))), Ref(fA),
         Lit(A2(I(1), Null))>>        \* an array that is neither array-of-number nor array-of-string because of a null element
NR == Len(Reps)
MxNames == <<"abs", "avg", "ceil", "contains", "ends_with", "floor", "join", "keys", "length", "map", "max", "max_by", "merge", "min", "min_by",
             "not_null", "reverse", "sort", "sort_by", "starts_with", "sum", "to_array", "to_string", "to_number", "type", "values">>
MxNameCps(i) == IF i <= Len(MxNames) THEN NameCps[MxNames[i]]
                ELSE IF i = Len(MxNames) + 1 THEN <<110, 111, 115, 117, 99, 104>>     \* nosuch
                ELSE <<65, 98, 115>>                                                  \* Abs (names are case-sensitive)
MxNNames == Len(MxNames) + 2
MaxArity == IF Thorough THEN 4 ELSE 3
RECURSIVE PowN(_, _)
PowN(b, e) == IF e = 0 THEN 1 ELSE b * PowN(b, e - 1)
RECURSIVE TupCount(_)
TupCount(a) == IF a < 0 THEN 0 ELSE TupCount(a - 1) + PowN(NR, a)     \* tuples of length <= a
RECURSIVE Digits(_, _)
Digits(n, len) == IF len = 0 THEN <<>> ELSE <<Reps[(n % NR) + 1]>> \o Digits(n \div NR, len - 1)
TupAt(j) == LET len == CHOOSE a \in 0..MaxArity : TupCount(a - 1) <= j /\ j < TupCount(a) IN Digits(j - TupCount(len - 1), len)
MxTotal == MxNNames * TupCount(MaxArity)
MxAt(i) == Fn(MxNameCps((i \div TupCount(MaxArity)) + 1), TupAt(i % TupCount(MaxArity)))
(* the same matrix with the arguments taken from document fields (JSON representatives only) *)
MxDocL1 == SetToSeq(UNION {{Fn(MxNameCps(n), SubSeq(<<fA, fB, fC>>, 1, a)) : a \in 0..3} : n \in 1..MxNNames})
RepVals == {Null, Bool(TRUE), I(0), S(cA), A0, A1(I(1)), A1(S(cA)), A2(A1(I(1)), O0), O0, O1(cA, I(1)), A2(S(cA), Null)}
DocsMx == {Obj({<<cA, x>>, <<cB, y>>, <<cC, z>>}) : x \in RepVals, y \in RepVals, z \in (IF Thorough THEN RepVals ELSE {Null, S(cA), A1(I(1))})}
(* _by functions: key expressions x arrays of length 0..3 *)
ByElems == {I(1), S(cA), Null, O1(cA, I(1)), O1(cA, S(<<120>>)), O1(cA, Null), O1(cA, I(0))}
ByArrs == IF Thorough THEN Arrs3Over(ByElems) ELSE ArrsOver(ByElems) \cup {A3(O1(cA, I(1)), O1(cA, I(0)), O1(cA, S(<<120>>))), A3(O1(cA, I(1)), O1(cA, I(0)), O1(cA, I(1)))}
ByKeys == <<Current, fA, Lit(I(1)), Lit(S(<<115>>)), Lit(Null), C1("abs", Current), IdxI(0), C1("to_string", Current)>>
ByL1 == SetToSeq(UNION {{C2(f, Lit(a), Ref(ByKeys[k])) : f \in {"sort_by", "max_by", "min_by"}, k \in 1..Len(ByKeys)} : a \in ByArrs}
                 \cup {C2("map", Ref(ByKeys[k]), Lit(a)) : k \in 1..Len(ByKeys), a \in {A0, A1(I(1)), A2(S(cA), Null)}})

(* ---------------- C11: error propagation through contexts --------------------------------- *)
ErrL1 == <<ErrAbs, ErrUnknown, ErrArity, ErrStep0, C2("sort_by", Current, Ref(Current)), Lit(Null), fA>>
CtxOps == <<fA, fB, Lit(I(1)), Lit(Null), Lit(A0), Current>>
CtxNS == 38
CtxDim(s) == IF s \in {1, 2, 3, 4, 5, 6, 9, 10} THEN Len(CtxOps) ELSE 1
CtxWrap(s, x, k) ==
  LET r == CtxOps[k] IN
  CASE s = 1 -> Or(x, r)
    [] s = 2 -> Or(r, x)
    [] s = 3 -> And(x, r)
    [] s = 4 -> And(r, x)
    [] s = 5 -> Cmp("eq", x, r)
    [] s = 6 -> Cmp("lt", r, x)
    [] s = 7 -> Not(x)
    [] s = 8 -> Sub(x, fA)
    [] s = 9 -> Pipe(x, r)
    [] s = 10 -> Pipe(r, x)
    [] s = 11 -> IdxL(x, 0)
    [] s = 12 -> MSL(<<x>>)
    [] s = 13 -> MSL(<<fA, x>>)
    [] s = 14 -> MSH(<<KV(cA, x)>>)
    [] s = 15 -> Proj(x, Identity)
    [] s = 16 -> Proj(fB, x)
    [] s = 17 -> Proj(Flat(x), Identity)
    [] s = 18 -> Proj(Flat(fB), x)
    [] s = 19 -> Filt(x, Identity, Current)
    [] s = 20 -> Filt(fB, x, Current)
    [] s = 21 -> Filt(fB, Identity, x)
    [] s = 22 -> VProj(x, Identity)
    [] s = 23 -> VProj(fA, x)
    [] s = 24 -> Proj(IdxE(x, SliceN(IntP(0), NoneP, NoneP)), Identity)
    [] s = 25 -> C1("to_array", x)
    [] s = 26 -> C1("type", x)
    [] s = 27 -> C2("not_null", Lit(I(1)), x)
    [] s = 28 -> C2("contains", fB, x)
    [] s = 29 -> C2("map", Ref(x), fB)
    [] s = 30 -> C2("sort_by", fB, Ref(x))
    [] s = 31 -> C2("max_by", fB, Ref(x))
    [] s = 32 -> C2("merge", fA, x)
    [] s = 33 -> Sub(fA, x)
    [] s = 34 -> Proj(IdxE(fB, SliceN(IntP(0), NoneP, NoneP)), x)
    [] s = 35 -> C1("length", x)
    [] s = 36 -> Pipe(Pipe(fA, x), fA)
    [] s = 37 -> MSH(<<KV(cA, fA), KV(cB, x)>>)
    [] s = 38 -> C2("min_by", fB, Ref(x))
DocsCtx == {O2(cA, x, cB, y) : x \in {Null, I(1), O1(cA, I(1)), O0, A1(I(1))}, y \in {A0, A2(I(1), I(2)), A2(O1(cA, I(1)), O1(cA, I(2))), Null, O1(cA, I(1)), A2(S(cA), I(1)), A1(O1(cA, I(1))), A1(I(3))}}
           \cup {A2(I(2), I(1)), A2(I(1), S(cA)), A0, Null, O0, O2(cA, I(1), cB, A2(O1(cA, I(1)), O2(cA, I(2), cB, I(3))))}

(* ---------------- C16: results are JSON (numbers, empties) -------------------------------- *)
JsonL1 == SetToSeq(
     UNION {{C1(f, Lit(A0)), C1(f, fC), C1(f, fA)} : f \in {"avg", "sum", "max", "min", "sort", "reverse", "to_array", "length"}}
 \cup {C1("to_number", Lit(v)) : v \in FnNumStrs} \cup {C1("to_number", fA), C1("to_string", fA), C1("abs", fA), C1("ceil", fA), C1("floor", fA)}
 \cup {C1(f, Lit(O0)) : f \in {"keys", "values", "merge", "to_array", "length"}} \cup {C1(f, fA) : f \in {"keys", "values"}}
 \cup {C2("map", Ref(Current), Lit(A0)), C2("map", Ref(Current), fC), C2("sort_by", Lit(A0), Ref(Current)), C2("max_by", Lit(A0), Ref(Current)), C2("min_by", fC, Ref(Current)),
       C2("merge", Lit(O0), Lit(O0)), C2("not_null", Lit(Null), Lit(Null)), C2("join", LitA, Lit(A0))}
 \* one- and two-element containers through every container function (early returns and intermediate typed slices)
 \cup {C1(f, Lit(a)) : f \in {"sort", "reverse", "max", "min", "to_array", "values", "keys", "sum", "avg", "length", "to_string"},
                       a \in {A1(S(cA)), A1(I(1)), A2(S(cB), S(cA)), A2(I(2), I(1)), O1(cA, S(cA))}}
 \cup {C1("sort", C1("keys", Lit(O1(cA, I(1))))), C2("join", LitA, Lit(A1(S(cA)))), C2("sort_by", Lit(A1(O1(cA, S(cA)))), Ref(fA)),
       C2("map", Ref(fA), Lit(A1(O1(cA, S(cA))))), MSL(<<C1("sort", Lit(A1(S(cA))))>>)}
 \cup {Proj(b, fA) : b \in {fA, fC, Current}} \cup {Proj(Flat(b), Identity) : b \in {fA, fC, Current}} \cup {VProj(b, fA) : b \in {fA, fC, Current}}
 \cup {Filt(b, Identity, Lit(Bool(FALSE))) : b \in {fA, fC, Current}} \cup {SliceOf(b, IntP(5), NoneP, NoneP) : b \in {fA, fC, Current}}
 \cup {MSL(<<fA>>), MSH(<<KV(cA, fA)>>), Lit(A0), Lit(O0), Pipe(fC, Proj(Identity, Identity))})
DocsJson == {O2(cA, x, cC, A0) : x \in {A0, O0, Null, I(1), Half, I(-1), S(<<105, 110, 102>>), S(<<78, 97, 78>>), S(<<49, 101, 51, 48, 57>>), S(<<49>>), A2(I(1), I(2)), O1(cA, A0), A1(A0)}}
            \cup {A0, O0, Null}

(* ---------------- C06: read-only input --------------------------------------------------------- *)
(* every built-in applied directly to parts of the document, so that an in-place implementation would be
   visible: unsorted arrays, non-palindromes, objects with overlapping keys; arrays of mixed types make the
   by-expression functions fail midway (error path) *)
RoKeys == <<Current, fA, fB, C1("abs", Current), C1("to_number", Current), Lit(I(1)), C1("length", Current)>>
RoL1 == SetToSeq(
     UNION {{C1(OneArg[s], a) : s \in 1..Len(OneArg)} : a \in {fA, fB, Current}}
 \cup UNION {{C2(f, a, Ref(RoKeys[k])) : f \in {"sort_by", "max_by", "min_by"}, k \in 1..Len(RoKeys)} : a \in {fA, fB, Current}}
 \cup UNION {{C2("map", Ref(RoKeys[k]), a) : k \in 1..Len(RoKeys)} : a \in {fA, fB, Current}}
 \cup {C2("merge", fA, fB), C2("merge", fB, fA), C2("merge", Current, fA), C2("contains", fA, Lit(I(1))), C2("join", Lit(S(<<44>>)), fA),
       C2("not_null", fA, fB), C2("not_null", fC, fA), Proj(Flat(fA), Identity), Proj(Flat(Current), Identity), SliceOf(fA, NoneP, NoneP, IntP(-1)),
       SliceOf(Current, IntP(1), NoneP, NoneP), Proj(fA, Identity), VProj(Current, Identity), Filt(fA, Identity, Current),
       Fn(NameCps["merge"], <<fA, fB, fA>>), C2("ends_with", fA, fB), Cmp("eq", fA, fB), MSL(<<fA, fB>>), MSH(<<KV(cA, fA)>>)})
RoNS == 14
RoDim(s) == 1
RoWrap(s, x, k) ==
  CASE s = 1 -> Pipe(x, IdxI(0))
    [] s = 2 -> Proj(fB, x)
    [] s = 3 -> MSL(<<x, fA, Current>>)
    [] s = 4 -> C2("map", Ref(x), fB)
    [] s = 5 -> Filt(fB, Identity, x)
    [] s = 6 -> Or(x, fA)
    [] s = 7 -> Pipe(x, C1("reverse", Current))
    [] s = 8 -> Pipe(x, C2("sort_by", Current, Ref(Current)))
    [] s = 9 -> Pipe(x, C1("sort", Current))
    [] s = 10 -> MSL(<<x, x>>)
    [] s = 11 -> Pipe(x, Proj(Flat(Current), Identity))
    [] s = 12 -> C2("merge", x, fA)
    \* a projection DIRECTLY over the value of x (a built-in that returns the document's own array: to_array, not_null, ||) that writes its results somewhere
    [] s = 13 -> Proj(x, fA)
    [] s = 14 -> Proj(x, Identity)
RoVals == {O0, A0, A3(I(3), I(1), I(2)), A3(S(cB), S(cAB), S(cA)), A3(I(3), S(cA), I(1)), A3(A2(I(2), I(1)), A2(S(cB), S(cA)), A0),
           A3(O2(cA, I(2), cB, I(1)), O2(cA, I(1), cB, I(2)), O1(cA, I(0))), O2(cA, I(1), cB, I(2)), O2(cB, I(3), cC, I(4)), S(cAB), I(2), Null,
           A2(O2(cA, I(2), cB, I(1)), O1(cA, S(cA))), A3(I(2), Null, I(1))}
DocsRo == {O2(cA, x, cB, y) : x \in RoVals, y \in RoVals} \cup RoVals

(* ---------------- C15: pipe law, referential transparency -------------------------------------- *)
MetaL1 == SetToSeq({fA, fB, fC, IdxI(0), IdxI(-1), Current, Lit(I(1)), LitA, LitQ, Lit(S(<<39>>)), MSL(<<LitQ, fA>>), Lit(Null), Lit(A2(I(1), S(cB))), Lit(O1(cA, I(1))),
                    Sub(fA, fA), Sub(fA, fB), IdxL(fB, 0), IdxL(fB, -1), Pipe(fB, IdxI(1)), MSL(<<fA, fB>>), MSH(<<KV(cA, fB), KV(cB, fA)>>),
                    Proj(fB, Identity), Proj(fB, fA), Proj(Flat(fB), Identity), Filt(fB, Identity, fA), Filt(fB, fA, Cmp("gt", fA, Lit(I(1)))),
                    VProj(fA, Identity), VProj(Identity, fA), SliceOf(fB, IntP(1), NoneP, NoneP), SliceOf(fB, NoneP, NoneP, IntP(-1)),
                    C1("length", fB), C1("keys", fA), C1("sort", fB), C1("type", fA), C1("to_string", fA), C1("to_array", fA), C1("abs", fA), C1("max", fB),
                    C2("sort_by", fB, Ref(fA)), C2("max_by", fB, Ref(fA)), C2("map", Ref(fA), fB), C2("merge", fA, Lit(O1(cB, I(2)))), C2("contains", fB, Lit(I(1))),
                    C2("join", Lit(S(<<44>>)), fB), Or(fA, fB), And(fA, fB), Not(fA), Cmp("eq", fA, fB), Cmp("lt", fA, Lit(I(2))), ErrAbs, C1("nosuchfn", fA),
                    \* a filter whose right-hand side is null on the first match, and one whose condition errors on a later element (as left sides of `| [0]`)
                    Filt(fB, fB, fA), Filt(fB, Identity, Cmp("eq", C1("abs", fA), Lit(I(1))))})
MetaOps == <<fA, fB, Lit(I(1)), Lit(Null), Current, IdxI(0)>>
MetaNS == 24
MetaDim(s) == IF s \in {1, 2, 3, 4, 5, 6, 9, 10, 15, 17} THEN Len(MetaOps) ELSE 1
(* contexts whose hole is evaluated against the same current node as the context itself *)
MetaWrap(s, x, k) ==
  LET r == MetaOps[k] IN
  CASE s = 1 -> Or(x, r) [] s = 2 -> Or(r, x) [] s = 3 -> And(x, r) [] s = 4 -> And(r, x)
    [] s = 5 -> Cmp("eq", x, r) [] s = 6 -> Cmp("lte", r, x) [] s = 7 -> Not(x) [] s = 8 -> MSL(<<x>>)
    [] s = 9 -> MSL(<<r, x>>) [] s = 10 -> MSH(<<KV(cA, x), KV(cB, r)>>) [] s = 11 -> C1("to_array", x) [] s = 12 -> C1("type", x)
    [] s = 13 -> C2("not_null", x, fA) [] s = 14 -> C2("contains", x, Lit(I(1))) [] s = 15 -> Pipe(x, r) [] s = 16 -> Sub(x, fA)
    [] s = 17 -> IdxL(x, <<0, -1, 1, 0, 0, 0>>[k]) [] s = 18 -> Proj(x, fA) [] s = 19 -> Proj(Flat(x), Identity) [] s = 20 -> Filt(x, Identity, fA)
    [] s = 21 -> VProj(x, Identity) [] s = 22 -> SliceOf(x, IntP(1), NoneP, NoneP) [] s = 23 -> C1("length", x) [] s = 24 -> C2("merge", x, Lit(O1(cC, I(3))))

(* ---------------- C18: typed Go documents ------------------------------------------------------ *)
fD == Field(<<100>>)  fEe == Field(<<101>>)  fF == Field(<<102>>)  fG == Field(<<103>>)  fH == Field(<<104>>)
fCapA == Field(<<65>>)  fCapC == Field(<<67>>)  fEl == Field(<<233, 108>>)  fCapEl == Field(<<201, 108>>)
NavL1 == SetToSeq({fA, fB, fC, fD, fEe, fF, fG, fH, fCapA, Field(<<122>>), Current, fE, fEl, fCapEl, Sub(fA, fEl), Sub(fB, fE), Proj(fC, fEl), Proj(fD, fE),
   Sub(fA, fA), Sub(fA, fB), Sub(fA, fC), Sub(fB, fA), Sub(fB, fC), Sub(fCapA, fCapA), Sub(fB, Field(<<122>>)),
   IdxL(fC, 0), IdxL(fC, -1), IdxL(fC, 5), IdxL(fD, 0), IdxL(fD, 1), IdxL(fEe, 0), IdxL(fF, -1), IdxI(0), IdxI(1), IdxL(Sub(fA, fC), 0),
   Sub(IdxL(fC, 0), fA), Sub(IdxL(fD, 0), fB), Sub(IdxL(fD, 1), fA),
   Proj(fC, Identity), Proj(fC, fA), Proj(fC, fB), Proj(fC, fC), Proj(fC, IdxL(fC, 0)), Proj(fD, fA), Proj(fD, Identity), Proj(fEe, Identity), Proj(fF, Identity),
   Proj(Identity, fA), Proj(Identity, Identity), Proj(fC, fCapA),
   Proj(Flat(fC), Identity), Proj(Flat(Proj(fC, fC)), Identity), Proj(Flat(fD), fA), Proj(Flat(fEe), Identity), Proj(Flat(Identity), Identity),
   Proj(Flat(MSL(<<fD, fD>>)), Identity), Proj(Flat(MSL(<<fD, fC>>)), MSL(<<fA>>)), C1("length", Proj(Flat(MSL(<<fD, fD>>)), Identity)),
   Proj(Flat(Proj(Flat(Identity), fD)), MSL(<<fA>>)), Proj(Flat(Proj(Identity, fD)), MSH(<<KV(<<110>>, fB)>>)), C1("length", Proj(Flat(Proj(Identity, fD)), Identity)),
   Proj(Flat(Proj(Identity, fC)), fA), Proj(Flat(MSL(<<fEe, fF, fD>>)), Identity),
   Filt(fC, Identity, Cmp("gt", fA, Lit(I(1)))), Filt(fC, fB, Cmp("eq", fB, Lit(S(<<120>>)))), Filt(fD, fA, fA), Filt(fEe, Identity, Cmp("gte", Current, Lit(I(2)))),
   Filt(fD, Identity, Current), Filt(fC, fA, fC), Filt(Identity, Identity, fA),
   SliceOf(fC, IntP(1), NoneP, NoneP), SliceOf(fEe, NoneP, NoneP, IntP(-1)), SliceOf(fD, NoneP, IntP(1), NoneP), SliceOf(fF, NoneP, NoneP, IntP(2)),
   SliceOf(Identity, IntP(1), NoneP, NoneP), Proj(IdxE(fC, SliceN(NoneP, IntP(2), NoneP)), fA),
   SliceOf(fC, NoneP, NoneP, IntP(0)), SliceOf(fD, IntP(1), IntP(2), IntP(0)), SliceOf(fEe, NoneP, NoneP, IntP(0)), SliceOf(fF, NoneP, IntP(1), IntP(0)), SliceOf(Identity, NoneP, NoneP, IntP(0)),
   SliceOf(fC, NoneP, NoneP, IntP(-1)), SliceOf(fD, IntP(-1), NoneP, IntP(-1)), SliceOf(fF, NoneP, NoneP, IntP(-2)),
   MSL(<<Sub(fA, fA), Sub(fB, fA)>>), MSL(<<fG, fH>>), MSH(<<KV(<<120>>, Sub(fA, fA)), KV(<<121>>, Sub(IdxL(fD, 0), fA))>>),
   Proj(fD, MSL(<<fA, fB>>)), Proj(fC, MSH(<<KV(<<120>>, fA)>>)), Proj(fD, MSH(<<KV(<<120>>, fA)>>)), Proj(Identity, MSL(<<fA>>)),
   Or(Sub(fB, fA), Sub(fA, fA)), Or(fB, fA), And(fB, Sub(fB, fA)), And(fG, fH), Not(fB), Not(fG), Not(fC), Not(fD), Not(fH), Or(fC, fEe), And(fC, fF),
   Pipe(Proj(fC, fA), IdxI(0)), Pipe(fEe, IdxI(0)), Pipe(fB, fA), Pipe(fD, IdxI(1)),
   C1("length", fEe), C1("length", fH), C1("length", fC), C1("length", fD), C1("length", fF), C1("length", Sub(fA, fB)), C1("length", Sub(fA, fC)), C1("length", IdxL(fF, 0)),
   Cmp("eq", Sub(fA, fA), Lit(I(1))), Cmp("lt", Sub(fA, fA), Sub(fB, fA)), Cmp("eq", fH, Lit(S(cAB))), Cmp("eq", fG, Lit(Bool(TRUE)))})
NavNS == 9
NavDim(s) == 1
NavWrap(s, x, k) ==
  CASE s = 1 -> Pipe(x, IdxI(0)) [] s = 2 -> MSL(<<x, fG>>) [] s = 3 -> Or(x, fH) [] s = 4 -> Not(x) [] s = 5 -> Proj(x, Identity)
    [] s = 6 -> Proj(Flat(x), Identity) [] s = 7 -> Filt(x, Identity, Current) [] s = 8 -> IdxL(x, -1) [] s = 9 -> Sub(x, fA)
(* every function applied to typed values (no-panic family; the outcome is not constrained) *)
TypedArgs == <<fA, fB, fC, fD, fEe, fF, fG, fH, Current, IdxL(fD, 1)>>
TypedL1 == SetToSeq(UNION {{C1(OneArg[s], TypedArgs[a]) : s \in 1..Len(OneArg)} : a \in 1..Len(TypedArgs)}
   \cup UNION {{C2(f, TypedArgs[a], Ref(fA)), C2(f, TypedArgs[a], Ref(Current))} : f \in {"sort_by", "max_by", "min_by"}, a \in 1..Len(TypedArgs)}
   \cup UNION {{C2("map", Ref(fA), TypedArgs[a]), C2("contains", TypedArgs[a], Lit(S(cA))), C2("contains", TypedArgs[a], Lit(I(1))), C2("join", Lit(S(<<44>>)), TypedArgs[a]),
                C2("starts_with", TypedArgs[a], Lit(S(cA))), C2("merge", TypedArgs[a], TypedArgs[a]), C2("not_null", TypedArgs[a], fA), C2("contains", fF, TypedArgs[a]),
                C2("ends_with", fH, TypedArgs[a])} : a \in 1..Len(TypedArgs)})

(* ---------------- C08: slices ------------------------------------------------------------- *)
(* parameters: absent, the window [-L-2, L+2], and huge magnitudes of both signs *)
SlL == IF Thorough THEN 6 ELSE 4
SlParams == <<NoneP>> \o [i \in 1..(2 * SlL + 5) |-> IntP(i - SlL - 3)]
            \o <<HugeP(1, 1), HugeP(1, 2), HugeP(1, 3), HugeP(1, 4), HugeP(-1, 1), HugeP(-1, 2), HugeP(-1, 3), HugeP(-1, 4), HugeP(-1, 5)>>
SlNP == Len(SlParams)
(* C08t: the same window over the typed slice fields of GoValues (C []Inner, D []*Inner, E []float64, F []string; empty in some documents) *)
SlBases == IF Family = "C08t" THEN <<fC, fD, fEe, fF>> ELSE <<Identity, fA, Current>>
SlTotal == SlNP * SlNP * SlNP * Len(SlBases)
SlAt(i) == LET b == SlBases[(i % Len(SlBases)) + 1]
               j == i \div Len(SlBases)
           IN SliceOf(b, SlParams[(j % SlNP) + 1], SlParams[((j \div SlNP) % SlNP) + 1], SlParams[(j \div (SlNP * SlNP)) + 1])
SlIdxL1 == SetToSeq({IdxE(b, n) : b \in {Identity, fA}, n \in {Index(k) : k \in -(SlL + 2)..(SlL + 2)} \cup {HugeIndex(1, 1), HugeIndex(1, 2), HugeIndex(1, 4), HugeIndex(-1, 1), HugeIndex(-1, 4), HugeIndex(-1, 5)}})
SlArr(n) == Arr([i \in 1..n |-> I(i - 1)])
DocsSlice == {SlArr(n) : n \in 0..SlL} \cup {O1(cA, SlArr(n)) : n \in 0..SlL} \cup {Null, S(<<97, 98, 99>>), O0, I(1), O1(cA, S(cAB)), A2(Null, A1(I(1)))}

(* ---------------- C03: precedence, associativity, projection scope -------------------------- *)
(* every way of putting an operator around x, with an atom (or the identity, for right-hand sides) as
   the other operand; three levels give all nestings of up to three operators *)
PrecAtoms == <<fA, fB, Current, Lit(I(1)), Not(fA)>>      \* (a prefix operator as an atom: `!a.b`, `!a[0]`, `!a | b` are trees with two operators)
PrecRhs == <<Identity, fA, fB, IdxI(0)>>
PrecNS == 36
PrecDim(s) == CASE s \in 1..12 -> Len(PrecAtoms) [] s \in {18, 19, 20, 21, 23} -> Len(PrecRhs) [] OTHER -> 1
PrecWrap(s, x, k) ==
  LET r == PrecAtoms[k] q == PrecRhs[k] IN
  CASE s = 1 -> Pipe(x, r) [] s = 2 -> Pipe(r, x) [] s = 3 -> Or(x, r) [] s = 4 -> Or(r, x)
    [] s = 5 -> And(x, r) [] s = 6 -> And(r, x) [] s = 7 -> Cmp("eq", x, r) [] s = 8 -> Cmp("eq", r, x)
    [] s = 9 -> Cmp("lt", x, r) [] s = 10 -> Cmp("lt", r, x) [] s = 11 -> Sub(x, r) [] s = 12 -> Sub(r, x)
    [] s = 13 -> Not(x) [] s = 14 -> Ref(x) [] s = 15 -> C1("to_array", x) [] s = 16 -> MSL(<<x>>)
    [] s = 17 -> IdxL(x, 0)
    [] s = 18 -> Proj(x, q) [] s = 19 -> Proj(Flat(x), q) [] s = 20 -> Proj(IdxE(x, SliceN(IntP(1), NoneP, NoneP)), q)
    [] s = 21 -> Filt(x, q, fC) [] s = 22 -> Filt(fA, Identity, x) [] s = 23 -> VProj(x, q)
    [] s = 24 -> Proj(fA, x) [] s = 25 -> Proj(Flat(fA), x) [] s = 26 -> Filt(fA, x, fC) [] s = 27 -> VProj(fA, x)
    [] s = 28 -> Proj(Identity, x) [] s = 29 -> VProj(Identity, x) [] s = 30 -> Proj(Flat(Identity), x)
    [] s = 31 -> Filt(Identity, x, fC) [] s = 32 -> Proj(IdxE(fA, SliceN(IntP(1), NoneP, NoneP)), x)
    [] s = 33 -> MSH(<<KV(cA, x)>>) [] s = 34 -> MSL(<<fA, x>>) [] s = 35 -> C2("not_null", x, fA) [] s = 36 -> Pipe(Pipe(fA, x), fB)
PrecL1 == PrecAtoms
DocsPrec == {
  O3x(O3x(I(1), A2(I(1), O3x(I(2), A1(I(3)), Bool(TRUE))), Bool(TRUE)),
      A3(O3x(A2(I(1), I(2)), O1(cA, I(5)), I(1)), O2(cA, A2(A1(I(7)), A1(I(8))), cC, Null), A2(I(1), A1(I(2)))),
      Bool(TRUE)),
  A3(O3x(I(1), A1(I(2)), Bool(TRUE)), O2(cA, O1(cB, O1(cC, I(3))), cC, Bool(FALSE)), A1(O1(cA, I(4)))),
  O2(cA, A2(O3x(A1(I(1)), O2(cA, I(1), cC, I(1)), I(1)), O2(cB, A1(O1(cA, I(2))), cA, I(0))),
     cB, O1(<<120>>, O2(cB, O1(cA, I(9)), cA, O2(cA, I(1), cB, I(1))))),
  O2(cA, I(1), cB, I(1)), O2(cA, Bool(FALSE), cB, I(0)), I(1), Null, A2(A2(I(1), I(2)), A2(I(0), I(3))),
  O2(cA, A2(A3(O1(cA, I(1)), O1(cA, I(2)), O2(cA, I(3), cB, I(4))), A2(O1(cA, I(5)), O1(cB, I(6)))), cB, A2(A2(I(1), I(2)), A3(I(3), I(4), I(5)))),
  A2(A3(O1(cA, I(1)), O1(cA, I(2)), O1(cA, A2(I(7), I(8)))), A3(A2(I(1), I(2)), A1(I(3)), I(4))) }

(* ---------------- family table ------------------------------------------------------------ *)
L1 == CASE Family = "C01" -> CoreL1 [] Family = "C03" -> PrecL1 [] Family = "C02" -> ProjL1 [] Family = "C07" -> OpL1 [] Family = "C07d" -> OpDocL1
        [] Family = "C09" -> FnL1 [] Family = "C09n" -> FnNestL1 [] Family = "C10" -> <<>> [] Family = "C10d" -> MxDocL1
        [] Family = "C10k" -> ByL1 [] Family = "C11" -> ErrL1 [] Family = "C16" -> JsonL1
        [] Family \in {"C08", "C08t"} -> <<>> [] Family = "C08i" -> SlIdxL1 [] Family = "C06" -> RoL1 [] Family = "C15" -> MetaL1 [] Family = "C18" -> NavL1 [] Family = "C18p" -> TypedL1 [] Family = "C09big" -> FnBigL1
NS == CASE Family = "C01" -> CoreNS [] Family = "C03" -> PrecNS [] Family = "C06" -> RoNS [] Family = "C15" -> MetaNS [] Family = "C18" -> NavNS [] Family = "C02" -> ProjNS [] Family = "C07" -> OpNS [] Family = "C09" -> FnNS
        [] Family = "C09n" -> FnNestNS [] Family = "C11" -> CtxNS [] OTHER -> 0
Dim(s) == CASE Family = "C01" -> CoreDim(s) [] Family = "C03" -> PrecDim(s) [] Family = "C06" -> RoDim(s) [] Family = "C15" -> MetaDim(s) [] Family = "C18" -> NavDim(s) [] Family = "C02" -> ProjDim(s) [] Family = "C07" -> OpDim(s) [] Family = "C09" -> FnDim(s)
            [] Family = "C09n" -> FnNestDim(s) [] Family = "C11" -> CtxDim(s)
Wrap(s, x, k) == CASE Family = "C01" -> CoreWrap(s, x, k) [] Family = "C03" -> PrecWrap(s, x, k) [] Family = "C06" -> RoWrap(s, x, k) [] Family = "C15" -> MetaWrap(s, x, k) [] Family = "C18" -> NavWrap(s, x, k) [] Family = "C02" -> ProjWrap(s, x, k) [] Family = "C07" -> OpWrap(s, x, k)
                   [] Family = "C09" -> FnWrap(s, x, k) [] Family = "C09n" -> FnNestWrap(s, x, k) [] Family = "C11" -> CtxWrap(s, x, k)
DocSet == CASE Family = "C01" -> DocsCore [] Family = "C03" -> DocsPrec [] Family = "C02" -> DocsProj [] Family \in {"C07", "C09", "C10", "C10k"} -> {Null}
            [] Family = "C07d" -> DocsOp [] Family = "C09n" -> DocsFnNest [] Family = "C10d" -> DocsMx [] Family = "C11" -> DocsCtx
            [] Family = "C16" -> DocsJson [] Family \in {"C08", "C08i"} -> DocsSlice [] Family = "C06" -> DocsRo [] Family = "C15" -> DocsFnNest \cup DocsCtx [] Family \in {"C18", "C18p", "C08t"} -> {J(GoDocs[i]) : i \in 1..Len(GoDocs)} [] Family = "C09big" -> DocsFnBig
(* number of wrapping levels: 1 = only L1; 2 = one Wrap; 3 = two nested Wraps *)
Levels == CASE Family \in {"C07d", "C10d", "C10k", "C16", "C08i", "C18p", "C09big"} -> 1 [] Family \in {"C08", "C08t"} -> 0 [] Family \in {"C01", "C07", "C11", "C03", "C15"} -> 3 [] Family = "C10" -> 0 [] OTHER -> 2
EmitL1 == Family \notin {"C09"}
Styles == <<StMin, StFull, StQuoted>>
WsOf(k) == CASE k = 1 -> "tight" [] k = 2 -> "space" [] k = 3 -> "mixed"

(* TLC does not reliably cache zero-arity definitions that go through parametrised operators, but it
   does cache LET-bound values and operator arguments; so the heavy tables (L1, documents, sizes)
   are computed once (Ctx) and passed down as the record g. *)
RECURSIVE CumDim(_)
CumDim(s) == IF s = 0 THEN 0 ELSE CumDim(s - 1) + Dim(s)
Ctx == LET l1 == L1
           n1 == Len(l1)
           sum == CumDim(NS)
           t1 == IF Family = "C10" THEN MxTotal ELSE IF Family \in {"C08", "C08t"} THEN SlTotal ELSE IF EmitL1 THEN n1 ELSE 0
           t2 == IF Levels >= 2 THEN n1 * sum ELSE 0
           t3 == IF Levels >= 3 THEN n1 * sum * sum ELSE 0
       IN [l1 |-> l1, docs |-> SetToSeq(DocSet), n1 |-> n1, cum |-> [s \in 0..NS |-> CumDim(s)], sum |-> sum,
           t1 |-> t1, t2 |-> t2, total |-> t1 + t2 + t3]
(* code o in 0..sum-1 -> Wrap(s, x, k) *)
WrapCode(g, o, x) == LET s == CHOOSE t \in 1..NS : g.cum[t - 1] <= o /\ o < g.cum[t] IN Wrap(s, x, o - g.cum[s - 1] + 1)
ExprAt(g, i) ==
  IF Family = "C10" THEN MxAt(i)
  ELSE IF Family \in {"C08", "C08t"} THEN SlAt(i)
  ELSE IF i < g.t1 THEN g.l1[i + 1]
  ELSE IF i < g.t1 + g.t2 THEN LET j == i - g.t1 IN WrapCode(g, j % g.sum, g.l1[(j \div g.sum) + 1])
  ELSE LET j == i - g.t1 - g.t2
           x == g.l1[(j \div (g.sum * g.sum)) + 1]
           o == j % (g.sum * g.sum)
       IN WrapCode(g, o % g.sum, WrapCode(g, o \div g.sum, x))
(* arithmetic progression lo+off, lo+off+step, ... below hi, as a sequence *)
Prog(lo, hi, step, off) == IF lo + off >= hi THEN <<>> ELSE [m \in 1..(((hi - lo - off - 1) \div step) + 1) |-> lo + off + (m - 1) * step]
(* the indices handled by shard sh of n: levels 1-2 thinned by stride st, level 3 by stride st3 (seeded slices) *)
MineSeq(g, sh, n, st, st3, seed) ==
  Prog(0, g.t1 + g.t2, n * st, n * (seed % st) + sh) \o Prog(g.t1 + g.t2, g.total, n * st3, n * (seed % st3) + sh)
(* the context of an index-decoded expression (same decoding with the L1 element replaced by the hole) and its base *)
CtxAt(gg, i) ==
  IF i < gg.t1 THEN Hole
  ELSE IF i < gg.t1 + gg.t2 THEN WrapCode(gg, (i - gg.t1) % gg.sum, Hole)
  ELSE LET o == (i - gg.t1 - gg.t2) % (gg.sum * gg.sum) IN WrapCode(gg, o % gg.sum, WrapCode(gg, o \div gg.sum, Hole))
BaseAt(gg, i) ==
  IF i < gg.t1 THEN gg.l1[i + 1]
  ELSE IF i < gg.t1 + gg.t2 THEN gg.l1[((i - gg.t1) \div gg.sum) + 1]
  ELSE gg.l1[((i - gg.t1 - gg.t2) \div (gg.sum * gg.sum)) + 1]
(* level of index i: 1, 2 or 3 *)
LevelOf(g, i) == IF i < g.t1 THEN 1 ELSE IF i < g.t1 + g.t2 THEN 2 ELSE 3
=============================================================================
