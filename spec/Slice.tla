------------------------------ MODULE Slice ------------------------------
(* Python-style extended slicing (C08), stated twice:

   * SlicePositions / PySlice: the declarative definition (what Python's slice.indices() selects):
     negative values count from the end, bounds are clamped, omitted bounds default by the sign
     of the step.
   * CodeSlice: the formulation of util.go (computeSliceParams / capSlice / the two loops), as a
     bounded loop, so that the two can be proved equal on a window by TLC (SliceTheorems) and the
     saturation lemma can be discharged for all integers by Apalache (SliceSat.tla).

   A slice parameter is <<"none">>, <<"int", n>> or <<"huge", sign, k>>: the k-th entry of HugeTable
   with the given sign, a magnitude beyond TLC's 32-bit integers (up to 2^63).  By the saturation
   lemma every magnitude greater than len+1 selects the same elements as len+1, so a huge value is
   *evaluated* as sign * (len + 2); its spelling is its decimal text.
   Step 0 is an error on arrays (handled by Eval). *)
EXTENDS JSONValue

NoneP == <<"none">>
IntP(n) == <<"int", n>>
HugeP(sign, k) == <<"huge", sign, k>>
HasP(p) == p[1] # "none"
IsHuge(p) == p[1] = "huge"
(* decimal digits of the huge magnitudes: 2^31-1, 2^31, 2^62, 2^63-1, 2^63 (the last only negated) *)
HugeTable == << <<50, 49, 52, 55, 52, 56, 51, 54, 52, 55>>, <<50, 49, 52, 55, 52, 56, 51, 54, 52, 56>>,
                <<52, 54, 49, 49, 54, 56, 54, 48, 49, 56, 52, 50, 55, 51, 56, 55, 57, 48, 52>>,
                <<57, 50, 50, 51, 51, 55, 50, 48, 51, 54, 56, 53, 52, 55, 55, 53, 56, 48, 55>>,
                <<57, 50, 50, 51, 51, 55, 50, 48, 51, 54, 56, 53, 52, 55, 55, 53, 56, 48, 56>> >>
(* the integer a parameter stands for when slicing an array of length n *)
PV(p, n) == IF p[1] = "huge" THEN p[2] * (n + 2) ELSE p[2]

Clamp(x, lo, hi) == IF x < lo THEN lo ELSE IF x > hi THEN hi ELSE x
NormIdx(x, n) == IF x < 0 THEN x + n ELSE x

(* start, stop, step after defaults and clamping; n = array length; step # 0 *)
SliceBounds(n, parts) ==
  LET step == IF HasP(parts[3]) THEN PV(parts[3], n) ELSE 1
      start == IF step > 0 THEN (IF HasP(parts[1]) THEN Clamp(NormIdx(PV(parts[1], n), n), 0, n) ELSE 0)
                           ELSE (IF HasP(parts[1]) THEN Clamp(NormIdx(PV(parts[1], n), n), -1, n - 1) ELSE n - 1)
      stop == IF step > 0 THEN (IF HasP(parts[2]) THEN Clamp(NormIdx(PV(parts[2], n), n), 0, n) ELSE n)
                          ELSE (IF HasP(parts[2]) THEN Clamp(NormIdx(PV(parts[2], n), n), -1, n - 1) ELSE -1)
  IN <<start, stop, step>>

(* 0-based positions selected, in selection order *)
SlicePositions(n, parts) ==
  LET b == SliceBounds(n, parts)
      start == b[1] stop == b[2] step == b[3]
      cnt == IF step > 0 THEN (IF stop <= start THEN 0 ELSE (stop - start + step - 1) \div step)
                         ELSE (IF start <= stop THEN 0 ELSE (start - stop + (-step) - 1) \div (-step))
  IN [k \in 1..cnt |-> start + (k - 1) * step]

PySlice(xs, parts) == LET ps == SlicePositions(Len(xs), parts) IN [k \in 1..Len(ps) |-> xs[ps[k] + 1]]

(* ---- the code's formulation -------------------------------------------------------------- *)
CapSlice(length, actual0, step) ==
  IF actual0 < 0
  THEN LET a == actual0 + length IN
       IF a < 0 THEN (IF step < 0 THEN -1 ELSE 0) ELSE a
  ELSE IF (IF "CapSliceOffByOne" \in Dev THEN actual0 > length ELSE actual0 >= length) THEN (IF step < 0 THEN length - 1 ELSE length)
  ELSE actual0

CodeParams(length, parts) ==
  LET step == IF HasP(parts[3]) THEN PV(parts[3], length) ELSE 1
      neg == step < 0
      start == IF ~HasP(parts[1]) THEN (IF neg THEN length - 1 ELSE 0) ELSE CapSlice(length, PV(parts[1], length), step)
      stop == IF ~HasP(parts[2]) THEN (IF neg THEN -1 ELSE length) ELSE CapSlice(length, PV(parts[2], length), step)
  IN <<start, stop, step>>

RECURSIVE CodeLoop(_, _, _, _)
CodeLoop(i, stop, step, acc) ==
  IF (step > 0 /\ i < stop) \/ (step < 0 /\ i > stop) THEN CodeLoop(i + step, stop, step, Append(acc, i)) ELSE acc
CodePositions(n, parts) == LET p == CodeParams(n, parts) IN CodeLoop(p[1], p[2], p[3], <<>>)

(* ---- properties checked by TLC over a window (MC_Slice) ---------------------------------- *)
InRange(n, parts) == \A k \in 1..Len(SlicePositions(n, parts)) : SlicePositions(n, parts)[k] \in 0..(n - 1)
Monotone(n, parts) ==
  LET ps == SlicePositions(n, parts) step == SliceBounds(n, parts)[3] IN
  \A k \in 1..(Len(ps) - 1) : ps[k + 1] - ps[k] = step
CodeAgrees(n, parts) == CodePositions(n, parts) = SlicePositions(n, parts)
(* saturating any present bound to +-(n+1) and any step to +-(n+1) does not change the selection *)
Sat(p, n) == IF HasP(p) THEN IntP(Clamp(PV(p, n), -(n + 1), n + 1)) ELSE p
Saturation(n, parts) ==
  SlicePositions(n, parts) = SlicePositions(n, <<Sat(parts[1], n), Sat(parts[2], n), Sat(parts[3], n)>>)
FullReverse(n) == SlicePositions(n, <<NoneP, NoneP, IntP(-1)>>) = [k \in 1..n |-> n - k]
(* [a:b] followed by [b:c] partitions [a:c] when a <= b <= c after normalisation *)
Partition(n, a, b, c) ==
  LET na == Clamp(NormIdx(a, n), 0, n) nb == Clamp(NormIdx(b, n), 0, n) nc == Clamp(NormIdx(c, n), 0, n) IN
  (na <= nb /\ nb <= nc) =>
     SlicePositions(n, <<IntP(a), IntP(b), NoneP>>) \o SlicePositions(n, <<IntP(b), IntP(c), NoneP>>)
       = SlicePositions(n, <<IntP(a), IntP(c), NoneP>>)
=============================================================================
