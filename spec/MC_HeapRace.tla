---- MODULE MC_HeapRace ----
EXTENDS HeapRace
DocVal == <<3, 1, 2>>
DocVal4 == <<4, 2, 3, 1>>
====
