----------------------------- MODULE MC_Interp -----------------------------
(* Big-step / small-step agreement: the interpreter machine on a sample of the index-decoded family
   (levels 1-2 thinned by Stride) times a set of documents. *)
EXTENDS Interp, Families
CONSTANTS Stride, Seed
G == Ctx
ExprsV == {ExprAt(G, i) : i \in SeqSet(MineSeq(G, 0, 1, Stride, 1000000007, Seed))}
DocsV == LET ds == G.docs IN {ds[i] : i \in {j \in 1..Len(ds) : j % 7 = Seed % 7 \/ j <= 3}}
View == <<e0, d0, stack, ret>>
=============================================================================
