#!/usr/bin/env python3
"""Regenerates /verif/MANIFEST.json from the table below and the set of pipelines in props.py."""
import json
import os
import subprocess
import sys

ROOT = os.path.dirname(os.path.dirname(os.path.abspath(__file__)))
sys.path.insert(0, os.path.join(ROOT, "bin"))
import props  # noqa: E402

COMMON = ("The property is stated on the TLA+ specification and model-checked by TLC within the listed bounds (negative controls: a named "
          "deviation switch must make the theorem fail); the same bounded universe is emitted by TLC with the allowed outcome sets and replayed "
          "through the real public API built from /repo's working tree; observations outside the allowed set are re-executed in a fresh process "
          "before being reported. ")
TEXT = {
    "C01": (COMMON + "Oracle: Eval!Outcomes on ASTs spelled by Unparse (3 spellings); plus Trace_Api validation of recorded API traces (compliance "
            "corpus + seeded deeper expressions) recomputed from the source text by the spec's own lexer/parser.", "6, 14.2"),
    "C02": (COMMON + "Projection theorems (no nulls, length, order, permutation for object wildcards, one-level flatten); all chains of two projections "
            "with the listed right-hand sides; small-step interpreter machine checked against the big-step semantics.", "6, 14.2"),
    "C03": (COMMON + "The declarative precedence relation (Unparse) and the Pratt machine (Parser) are proved to agree on every tree with <= 3 operators; "
            "minimal, fully parenthesised and mixed-whitespace spellings are replayed on documents that separate alternative groupings.", "6, 14.2"),
    "C04": (COMMON + "Pratt machine = ABNF chart recogniser on ALL token strings up to length 4/5 (and up to 6/7 over the nesting tokens); every token string, every number spelling and single-token mutants of "
            "sentences are given to the real Compile; strings derived only by the deviation production D1 are the one known finding. The explicit-stack "
            "parser machine (ParserM) refines the Pratt specification and is bound to parser.go by Trace_Parse (real nud/led sequences).", "6, 14.1, 14.2"),
    "C05": (COMMON + "Totality of the lexer / parser / evaluator models on short inputs (no panic status, no read past eof); exhaustive short strings over "
            "character classes, ASCII, boundary runes and invalid bytes; lexer and parser machines (LexM, ParserM): read positions in range, linear step "
            "count / consumed-token progress, termination; size amplification to 64 KiB and seeded fuzzing are exploration, not model checking.", "6, 10, 14.1, 14.2"),
    "C06": (COMMON + "Api.tla: no action writes a document (action property + invariant, negative control InPlaceSortBy); every replayed Search compares "
            "deep and capacity-aware snapshots of the document before/after, on success and error paths, with document canaries.", "6, 14.2"),
    "C07": (COMMON + "Truth table over all ordered pairs of the value universe for 6 comparators, ||, &&, !; short-circuiting checked by an erroring right "
            "operand and, on the interpreter machine, by the ShortCircuit invariant.", "6, 14.2"),
    "C08": (COMMON + "Declarative Python slicing = the code's capSlice formulation on the window (TLC); saturation lemma for all integers (Apalache, "
            "thorough); window + boundary integers up to +-2^63 replayed, on generic arrays and on typed Go slices (empty and non-empty).", "6, 14.2"),
    "C09": (COMMON + "Per-function algebraic theorems (sorted permutation, stability, first extremal element, right-biased merge, ...) on the spec; every "
            "typed value x every function form replayed; big whole numbers; recorded traces validated.", "6, 14.2"),
    "C10": (COMMON + "Full name x arity x argument-type matrix incl. unknown names, variadic positions, expression references in value positions and "
            "by-expression key types, with literal and document arguments.", "6, 14.2"),
    "C11": (COMMON + "Strict!Reached defines structurally which positions are evaluated; theorem: a reached erroring sub-expression makes the whole an "
            "error, an unreached one changes nothing; 38 contexts and their compositions replayed.", "6, 14.2"),
    "C12": (COMMON + "HeapRace.tla: with the specified copy-on-sort no interleaving writes the shared cell and the reader returns its solo result; TLC "
            "(Sched.tla) enumerates/samples interleavings of the measured hook points, replayed on real goroutines gated at the hooks; the Go race "
            "detector observes the memory model on free-running goroutines.", "6, 10, 14.2"),
    "C13": (COMMON + "Api.tla: HistoryIndependent over all histories (handle and reused Parser), negative controls InPlaceSortBy / NoIndexReset; every "
            "history <= 4/5 replayed on one real object and compared with fresh objects and the one-shot Search; LexM: two tokenize() calls per "
            "history, the raw-string buffer does not carry over (negative control ReuseLexer).", "6, 14.1, 14.2"),
    "C14": (COMMON + "Lexer round-trip theorems (quoted identifier, raw string, literal, unquoted identifier membership, whitespace insignificance) for "
            "every string up to 3/4 characters over character classes and every 2-character string over ASCII + boundary runes; the same spellings replayed; "
            "the rune-by-rune lexer machine LexM refines the lexer specification.", "6, 14.1, 14.2"),
    "C15": (COMMON + "Pipe law and substitution theorem on the spec; metamorphic replay with both sides real (A|B vs B after A; C[A] vs C[`v`]), each "
            "side also checked against the specification.", "6, 14.2"),
    "C16": (COMMON + "IsJSON of every ok outcome is a theorem of the spec; the JSON-closure walk is applied to real results of the corner family and of "
            "the C01/C02/C09 families.", "6, 14.2"),
    "C17": (COMMON + "Offsets in range on the lexer / parser models; the Compile / SyntaxError / HighlightLocation / MustCompile contract checked on every "
            "short string, token string and identifier context; predicted offsets compared as drift.", "6, 14.2"),
    "C18": (COMMON + "GoValues.tla: typed values (structs, pointers, typed slices, embedded structs) and their JSON abstraction J with the field rule; navigational expressions on 13 typed documents "
            "compared with the spec on J(g); every function on typed values must not panic.", "6, 14.2"),
    "C19": (COMMON + "Jpgo.tla: phases and failure sites with invariants and termination; the built binary is run on generated (expression, input, "
            "channel) triples.", "6, 14.2"),
}
TECH = "TLA+ specification + TLC model checking, TLC-generated behaviours replayed into the code, recorded traces validated by TLC"
NOTE = ("Trusted: TLC/SANY, the Json community module, encoding/json, the harness codec/comparator (canaries in every run). "
        "Exhaustive only within the stated bounds; beyond them sampled with the same oracle.")


def main():
    ids = [json.loads(l)["id"] for l in open(os.path.join(ROOT, "properties.jsonl"))]
    commits = []
    try:
        out = subprocess.run(["git", "-C", "/repo", "log", "--format=%H %s"], capture_output=True, text=True).stdout
        commits = [l.split()[0] for l in out.splitlines() if l.split(" ", 1)[1].startswith("verif hook")]
    except Exception:
        pass
    checks = []
    for i in ids:
        if i not in props.PIPELINES:
            continue
        text, ref = TEXT.get(i, (TEXT["C01"][0], "6"))
        checks.append({
            "property_id": i,
            "quick_cmd": "python3 bin/check.py %s quick" % i,
            "thorough_cmd": "python3 bin/check.py %s thorough" % i,
            "evidence_file": "evidence/%s.json" % i,
            "replay_cmd_template": "python3 bin/check.py --replay {path}",
            "engine": "tlc+jmv",
            "level_claimed": {"category": "model_checking", "text": text, "design_ref": "DESIGN.md section " + ref},
            "level_note": NOTE,
            "technique": TECH,
        })
    na = [{"property_id": i, "reason": "check not built yet (build in progress; see DESIGN.md section 12)"}
          for i in ids if i not in props.PIPELINES]
    m = {
        "version": 1,
        "setup_cmd": "python3 bin/setup.py",
        "hooks": {"guard": "verif",
                  "enable": "go build -tags verif (harness module /verif/harness with replace github.com/jmespath/go-jmespath => /repo)",
                  "baseline_off_cmd": "cd /repo && go test -count=1 ./... && cd internal/testify && go test -count=1 ./...",
                  "source_commits": commits, "add_only": True},
        "engines": [{"name": "tlc+jmv", "path": "bin/check.py", "serves_properties": [c["property_id"] for c in checks],
                     "kind_free_text": "TLA+ specification in spec/ checked by TLC; Go harness harness/jmv replays TLC-generated "
                                       "behaviours into the real code and records traces that TLC validates"}],
        "checks": checks,
        "notes": "see DESIGN.md; known findings in known_findings.json",
        "not_applicable": na,
    }
    json.dump(m, open(os.path.join(ROOT, "MANIFEST.json"), "w"), indent=1)
    print("manifest: %d checks, %d not_applicable" % (len(checks), len(na)))


if __name__ == "__main__":
    main()
