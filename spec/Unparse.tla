------------------------------ MODULE Unparse ------------------------------
(* The precedence list of JMESPath as data, the relation "needs parentheses", and the spelling of an
   AST as a token sequence and as source text (C03, C14, C15).  Declarative and independent of the
   Pratt algorithm of Parser.tla: only the level numbers of the precedence list and three rules.

     R1  an operand printed where a loop of power c is active needs parentheses unless LedPow(t) > c;
     R2  a left operand of an operator of power p needs parentheses unless RightOpen(t) >= p;
     R3  the right side of "." and the right-hand side of a projection are continuations of the
         expression to their left and cannot be parenthesised at all.

   Precedence, loosest to tightest: pipe 1 < or 2 < and 3 < comparators 5 < flatten 9 < star 20 <
   filter 21 < dot 40 < not 45 < brace 50 < bracket 55 < call 60.

   Tokens are <<type, value>>: uid/qid carry the name (code points), number an integer, jsonlit a
   JSON *value*, strlit the denoted string (code points); all others carry <<>>. *)
EXTENDS Eval

INF == 1000
T(t) == <<t, <<>>>>
Pow(k) == CASE k = "Pipe" -> 1 [] k = "OrExpression" -> 2 [] k = "AndExpression" -> 3 [] k = "Comparator" -> 5
BAD == <<<<"BAD", <<>>>>>>
IsBad(x) == \E i \in 1..Len(x) : x[i][1] = "BAD"
Cat(a, b) == a \o b
Cat3(a, b, c) == a \o b \o c
Paren(x) == Cat3(<<T("lparen")>>, x, <<T("rparen")>>)

IsLetterC(c) == c \in 65..90 \/ c \in 97..122
IdStartC(c) == IsLetterC(c) \/ c = 95
IdContC(c) == IsLetterC(c) \/ c \in 48..57 \/ c = 95
(* unquoted-identifier = [A-Za-z_][A-Za-z0-9_]* *)
IsIdent(s) == Len(s) >= 1 /\ IdStartC(s[1]) /\ \A i \in 2..Len(s) : IdContC(s[i])
(* strings a raw string literal can spell: no backslash directly before a quote or at the end *)
RawSpellable(s) == /\ (s = <<>> \/ s[Len(s)] # 92)
                   /\ \A i \in 1..(Len(s) - 1) : ~(s[i] = 92 /\ s[i + 1] = 39)

(* Spelling style: st.q = quote every identifier; st.raw = spell string literals as raw strings when possible *)
NameTok(s, st) == IF IsIdent(s) /\ ~st.q THEN <<"uid", s>> ELSE <<"qid", s>>
LitTok(v, st) == IF v[1] = "str" /\ st.raw /\ RawSpellable(v[2]) THEN <<"strlit", v[2]>> ELSE <<"jsonlit", v>>

IsProjKind(t) == t[1] \in {"Projection", "ValueProjection", "FilterProjection"}
(* power of the loop that parses the right-hand side of a projection *)
RhsPow(t) == CASE t[1] = "FilterProjection" -> 21
               [] t[1] = "ValueProjection" -> 20
               [] t[1] = "Projection" /\ t[2][1] = "Flatten" -> 9
               [] OTHER -> 20
RhsOf(t) == t[3]
IsSliceProj(t) == t[1] = "Projection" /\ t[2][1] = "IndexExpression" /\ t[2][3][1] = "Slice"
LeftBase(t) == IF t[1] = "Projection" /\ t[2][1] = "Flatten" THEN t[2][2]
               ELSE IF IsSliceProj(t) THEN t[2][2]
               ELSE t[2]
RECURSIVE LedPow(_), RightOpen(_)
(* power with which the node takes its left operand; INF for nodes that start with their own token *)
LedPow(t) ==
  CASE t[1] \in {"Pipe", "OrExpression", "AndExpression", "Comparator"} -> Pow(t[1])
    [] t[1] = "Subexpression" -> 40
    [] t[1] = "IndexExpression" -> IF t[2] = Identity THEN INF ELSE 55
    [] t[1] = "FunctionExpression" -> INF
    [] t[1] = "Projection" /\ t[2][1] = "Flatten" -> IF LeftBase(t) = Identity THEN INF ELSE 9
    [] t[1] = "Projection" -> IF LeftBase(t) = Identity THEN INF ELSE 55
    [] t[1] = "FilterProjection" -> IF t[2] = Identity THEN INF ELSE 21
    [] t[1] = "ValueProjection" -> IF t[2] = Identity THEN INF ELSE 40
    [] OTHER -> INF
(* smallest power of a loop still open at the right edge of t (INF: closed by a delimiter) *)
RightOpen(t) ==
  CASE t[1] \in {"Pipe", "OrExpression", "AndExpression"} -> Min2(Pow(t[1]), RightOpen(t[3]))
    [] t[1] = "Comparator" -> Min2(5, RightOpen(t[4]))
    [] t[1] = "NotExpression" -> Min2(45, RightOpen(t[2]))
    [] t[1] = "ExpRef" -> 0
    [] t[1] = "Subexpression" -> Min2(40, RightOpen(t[3]))
    [] IsProjKind(t) -> IF RhsOf(t) = Identity THEN 9 ELSE Min2(RhsPow(t), RightOpen(RhsOf(t)))
    [] OTHER -> INF

RECURSIVE U(_, _, _), Cont(_, _, _), Operand(_, _, _), LeftOp(_, _, _, _), Args(_, _), KVs(_, _), DotRhs(_, _, _)

Atomic(t) == t[1] \in {"Field", "Literal", "CurrentNode"}

(* st.sp: we are on the left spine of a continuation (right side of ".", projection right-hand side),
   where nothing can be parenthesised; operands off the spine reset it *)
OffSpine(st) == [st EXCEPT !.sp = FALSE]
(* operand in a position where a loop of power c is active; st.full = parenthesise whenever the grammar allows *)
Operand(t, c, st0) ==
  LET st == OffSpine(st0) IN
  IF t = Identity THEN BAD
  ELSE IF st.full /\ ~Atomic(t) THEN Paren(U(t, 0, st))
  ELSE IF LedPow(t) > c THEN U(t, c, st) ELSE Paren(U(t, 0, st))

(* left operand of a led operator of power p, inside a loop of power c *)
LeftOp(t, p, c, st) ==
  IF t = Identity THEN BAD
  ELSE IF st.full /\ ~Atomic(t) THEN Paren(U(t, 0, st))
  ELSE IF LedPow(t) > c /\ RightOpen(t) >= p THEN U(t, c, st)
  ELSE IF st.sp THEN BAD ELSE Paren(U(t, 0, st))

NumTok(n) == <<"number", n>>
(* a number token beyond TLC's integers: <<"number", 0, <<"huge", sign, k>>>> *)
HugeTok(p) == <<"number", 0, p>>
ParamTok(p) == IF IsHuge(p) THEN HugeTok(p) ELSE NumTok(p[2])
SliceToks(parts) ==
  LET n(i) == IF HasP(parts[i]) THEN <<ParamTok(parts[i])>> ELSE <<>> IN
  n(1) \o <<T("colon")>> \o n(2) \o (IF HasP(parts[3]) THEN <<T("colon")>> \o n(3) ELSE <<>>)

(* leftmost leaf of a chain of led nodes *)
RECURSIVE SpineHead(_)
SpineHead(x) ==
  IF x[1] \in {"Subexpression", "IndexExpression", "FilterProjection", "ValueProjection", "Pipe", "OrExpression", "AndExpression"}
  THEN (IF x[2] = Identity THEN x ELSE SpineHead(x[2]))
  ELSE IF x[1] = "Projection" THEN (IF LeftBase(x) = Identity THEN x ELSE SpineHead(LeftBase(x)))
  ELSE IF x[1] = "Comparator" THEN SpineHead(x[3])
  ELSE x
NoFull(st) == [st EXCEPT !.full = FALSE, !.sp = TRUE]
DotAble(h) == h[1] \in {"Field", "FunctionExpression", "MultiSelectList", "MultiSelectHash"}

(* right side of ".": identifier / function call / multi-select, possibly continued by tighter postfix
   operators; nothing on its left spine can be parenthesised *)
DotRhs(r, c, st) ==
  IF DotAble(SpineHead(r)) /\ LedPow(r) > c THEN U(r, c, NoFull(st)) ELSE BAD

(* continuation syntax of a projection right-hand side parsed with power b *)
Cont(rhs, b, st) ==
  IF rhs = Identity THEN <<>>
  ELSE LET h == SpineHead(rhs)
           bracketStart == \/ (h[1] \in {"IndexExpression", "FilterProjection"} /\ h[2] = Identity)
                           \/ (h[1] = "Projection" /\ LeftBase(h) = Identity /\ h[2][1] # "Flatten")
           starStart == h[1] = "ValueProjection" /\ h[2] = Identity
       IN IF LedPow(rhs) <= b THEN BAD
          ELSE IF bracketStart THEN U(rhs, b, NoFull(st))
          ELSE IF starStart \/ DotAble(h) THEN Cat(<<T("dot")>>, U(rhs, b, NoFull(st)))
          ELSE BAD

Args(es, st) == IF es = <<>> THEN <<>> ELSE IF Len(es) = 1 THEN Operand(es[1], 0, st)
                ELSE Cat3(Operand(es[1], 0, st), <<T("comma")>>, Args(Tail(es), st))
KVs(kvs, st) == LET one == Cat(<<NameTok(kvs[1][2], st), T("colon")>>, Operand(kvs[1][3], 0, st)) IN
                IF Len(kvs) = 1 THEN one ELSE Cat3(one, <<T("comma")>>, KVs(Tail(kvs), st))

(* tokens of t, printed where a loop of power c is active *)
U(t, c, st) ==
  LET k == t[1] IN
  CASE k = "Field" -> <<NameTok(t[2], st)>>
    [] k = "Literal" -> <<LitTok(t[2], st)>>
    [] k = "CurrentNode" -> <<T("current")>>
    [] k = "Identity" -> BAD
    [] k \in {"Pipe", "OrExpression", "AndExpression"} ->
         Cat3(LeftOp(t[2], Pow(k), c, st), <<T(CASE k = "Pipe" -> "pipe" [] k = "OrExpression" -> "or" [] k = "AndExpression" -> "and")>>, Operand(t[3], Pow(k), st))
    [] k = "Comparator" -> Cat3(LeftOp(t[3], 5, c, st), <<T(t[2])>>, Operand(t[4], 5, st))
    [] k = "NotExpression" -> Cat(<<T("not")>>, Operand(t[2], 45, st))
    [] k = "ExpRef" -> Cat(<<T("expref")>>, Operand(t[2], 0, st))
    [] k = "Subexpression" -> Cat3(LeftOp(t[2], 40, c, st), <<T("dot")>>, DotRhs(t[3], 40, st))
    [] k = "IndexExpression" ->
         IF t[3][1] # "Index" THEN BAD
         ELSE Cat(IF t[2] = Identity THEN <<>> ELSE LeftOp(t[2], 55, c, st),
                  <<T("lbracket"), (IF Len(t[3]) = 3 THEN HugeTok(t[3][3]) ELSE NumTok(t[3][2])), T("rbracket")>>)
    [] k = "FunctionExpression" -> IF ~IsIdent(t[2]) THEN BAD ELSE Cat3(<<<<"uid", t[2]>>, T("lparen")>>, Args(t[3], st), <<T("rparen")>>)
    [] k = "MultiSelectList" -> IF t[2] = <<>> THEN BAD ELSE Cat3(<<T("lbracket")>>, Args(t[2], st), <<T("rbracket")>>)
    [] k = "MultiSelectHash" -> IF t[2] = <<>> THEN BAD ELSE Cat3(<<T("lbrace")>>, KVs(t[2], st), <<T("rbrace")>>)
    [] k = "Projection" ->
         LET base == LeftBase(t)
             opener == IF t[2][1] = "Flatten" THEN <<T("flatten")>>
                       ELSE IF IsSliceProj(t) THEN <<T("lbracket")>> \o SliceToks(t[2][3][2]) \o <<T("rbracket")>>
                       ELSE <<T("lbracket"), T("star"), T("rbracket")>>
             lp == IF t[2][1] = "Flatten" THEN 9 ELSE 55
         IN Cat3(IF base = Identity THEN <<>> ELSE LeftOp(base, lp, c, st), opener, Cont(t[3], RhsPow(t), st))
    [] k = "FilterProjection" ->
         Cat3(IF t[2] = Identity THEN <<>> ELSE LeftOp(t[2], 21, c, st),
              Cat3(<<T("filter")>>, Operand(t[4], 0, st), <<T("rbracket")>>), Cont(t[3], 21, st))
    [] k = "ValueProjection" ->
         Cat3(IF t[2] = Identity THEN <<>> ELSE Cat(LeftOp(t[2], 40, c, st), <<T("dot")>>), <<T("star")>>, Cont(t[3], 20, st))
    [] OTHER -> BAD

StMin == [full |-> FALSE, q |-> FALSE, raw |-> FALSE, sp |-> FALSE]
StFull == [full |-> TRUE, q |-> FALSE, raw |-> FALSE, sp |-> FALSE]
StQuoted == [full |-> FALSE, q |-> TRUE, raw |-> TRUE, sp |-> FALSE]
UnparseSt(t, st) == U(t, 0, st)
UnparseMin(t) == U(t, 0, StMin)
UnparseFull(t) == U(t, 0, StFull)
Expressible(t) == ~IsBad(UnparseMin(t))

(* ---------------------------------------------------------------------------------------------
   Token text and rendering to source code points *)
EscapeChar(s, ch) == LET RECURSIVE E(_)
                         E(x) == IF x = <<>> THEN <<>> ELSE (IF x[1] = ch THEN <<92, ch>> ELSE <<x[1]>>) \o E(Tail(x))
                     IN E(s)
QuoteId(s) == QuoteCps(s)                               \* "..." with JSON string escaping
RawText(s) == <<39>> \o EscapeChar(s, 39) \o <<39>>     \* '...' with ' written as \'
LitText(v) == <<96>> \o EscapeChar(JsonTextCps(v), 96) \o <<96>>   \* `...` with ` written as \`
Punct(ty) == CASE ty = "star" -> <<42>> [] ty = "dot" -> <<46>> [] ty = "filter" -> <<91, 63>> [] ty = "flatten" -> <<91, 93>>
               [] ty = "lparen" -> <<40>> [] ty = "rparen" -> <<41>> [] ty = "lbracket" -> <<91>> [] ty = "rbracket" -> <<93>>
               [] ty = "lbrace" -> <<123>> [] ty = "rbrace" -> <<125>> [] ty = "or" -> <<124, 124>> [] ty = "pipe" -> <<124>>
               [] ty = "comma" -> <<44>> [] ty = "colon" -> <<58>> [] ty = "lt" -> <<60>> [] ty = "lte" -> <<60, 61>>
               [] ty = "gt" -> <<62>> [] ty = "gte" -> <<62, 61>> [] ty = "eq" -> <<61, 61>> [] ty = "ne" -> <<33, 61>>
               [] ty = "current" -> <<64>> [] ty = "expref" -> <<38>> [] ty = "and" -> <<38, 38>> [] ty = "not" -> <<33>>
               [] ty = "unknown" -> <<61>>
TokText(tk) == CASE tk[1] = "uid" -> tk[2]
                 [] tk[1] = "qid" -> QuoteId(tk[2])
                 [] tk[1] = "number" -> IF Len(tk) = 3 THEN (IF tk[3][2] < 0 THEN <<45>> ELSE <<>>) \o HugeTable[tk[3][3]] ELSE IntCps(tk[2])
                 [] tk[1] = "jsonlit" -> LitText(tk[2])
                 [] tk[1] = "strlit" -> RawText(tk[2])
                 [] OTHER -> Punct(tk[1])
(* must two adjacent tokens be separated so that they do not lex as something else? *)
NeedsSep(t1, t2) ==
  LET a == t1[1] b == t2[1] first == TokText(t2)[1] IN
  \/ (a \in {"uid", "number"} /\ b \in {"uid", "number"} /\ IdContC(first) /\ ~(a = "number" /\ ~IsDigit(first)))
  \/ (a = "lbracket" /\ b \in {"rbracket"})
  \/ (a = "pipe" /\ b \in {"pipe", "or"})
  \/ (a = "expref" /\ b \in {"expref", "and"})
  \/ (a \in {"lt", "gt", "not", "unknown"} /\ b \in {"eq", "unknown"})
WsStyles == {"tight", "space", "mixed"}
MixedWs == << <<32>>, <<9>>, <<10>>, <<13>>, <<32, 32>>, <<10, 9>> >>
RECURSIVE RenderFrom(_, _, _)
RenderFrom(toks, i, ws) ==
  IF i > Len(toks) THEN <<>>
  ELSE LET sep == IF i = Len(toks) THEN (IF ws = "mixed" THEN <<32>> ELSE <<>>)
                  ELSE IF ws = "space" THEN <<32>>
                  ELSE IF ws = "mixed" THEN MixedWs[(i % Len(MixedWs)) + 1]
                  ELSE IF NeedsSep(toks[i], toks[i + 1]) THEN <<32>> ELSE <<>>
       IN TokText(toks[i]) \o sep \o RenderFrom(toks, i + 1, ws)
Render(toks, ws) == (IF ws = "mixed" THEN <<9>> ELSE <<>>) \o RenderFrom(toks, 1, ws)
SourceOf(t, st, ws) == Render(UnparseSt(t, st), ws)
=============================================================================
