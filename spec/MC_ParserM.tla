----------------------------- MODULE MC_ParserM -----------------------------
(* Model of ParserM over every token string up to MaxLen: the string is built token by token (so TLC's workers
   share the exploration), and from every string the machine is started once and run to completion. *)
EXTENDS ParserM

CONSTANTS MaxLen
Alpha == {T("star"), T("dot"), T("filter"), T("flatten"), T("lparen"), T("rparen"), T("lbracket"), T("rbracket"),
          T("lbrace"), T("rbrace"), T("or"), T("pipe"), <<"number", 0>>, <<"uid", <<97>>>>, <<"qid", <<98>>>>, T("comma"),
          T("colon"), T("lt"), <<"jsonlit", IntV(1)>>, T("current"), T("expref"), T("and"), T("not"), T("unknown")}
VARIABLES s, mode
vars == <<s, mode, toks, stack, ret, trail>>

Init == s = <<>> /\ mode = "build" /\ toks = <<EOFT>> /\ stack = <<>> /\ ret = None /\ trail = <<>>
Build == /\ mode = "build" /\ Len(s) < MaxLen
         /\ \E a \in Alpha : s' = Append(s, a)
         /\ UNCHANGED <<mode, toks, stack, ret, trail>>
Start == /\ mode = "build" /\ mode' = "run" /\ StartOn(Append(s, EOFT)) /\ UNCHANGED s
Run == mode = "run" /\ Step /\ UNCHANGED <<s, mode>>
Next == Build \/ Start \/ Run
Spec == Init /\ [][Next]_vars
FairSpec == Spec /\ WF_vars(Run)

RunInv(P) == mode = "run" => P
Inv == RunInv(Refines /\ IdxInRange /\ Progress /\ Bounded)
NeverStuck == (mode = "run" /\ ~Done) => ENABLED Run
Terminates == [](mode = "run" => <>Done)
=============================================================================
