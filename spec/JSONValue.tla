---------------------------- MODULE JSONValue ----------------------------
(* The value universe of JMESPath as tagged tuples.

     <<"null">>  <<"bool", b>>  <<"num", p, q>> (reduced rational, q > 0)
     <<"str", cps>> (sequence of Unicode code points)
     <<"arr", seq>>  <<"obj", set of <<key, value>>>> (keys = code point sequences, unique)
     <<"expref", ast>>   -- not JSON; only as a function argument
     <<"jsontext", v>>   -- an opaque string: "some JSON text that decodes to v" (to_string of a non-string)

   The tag is always the first component, so TLC never compares payloads of different types.
   Numbers are exact rationals (TLC has no reals); non-finite numbers do not exist in the model.

   Dev is the set of *named deviations* switched on.  With Dev = {} every module states what
   JMESPath requires; a member of Dev switches one operator to the behaviour the pinned code was
   observed to have (negative controls of the model, and documentation of the defect). *)
EXTENDS Integers, Sequences, FiniteSets, TLC

CONSTANT Dev

AbsI(n) == IF n < 0 THEN -n ELSE n
RECURSIVE Gcd(_, _)
Gcd(a, b) == IF b = 0 THEN a ELSE Gcd(b, a % b)
Num(p, q) == LET s == IF q < 0 THEN -1 ELSE 1
                 g == Gcd(AbsI(p), AbsI(q))
             IN <<"num", (s * p) \div g, (s * q) \div g>>
IntV(n) == <<"num", n, 1>>
(* Whole numbers beyond TLC's 32-bit integers (and beyond int64): <<"num", k, 0>> is the k-th entry of BigDigits
   (decimal digits, ascending): 1e19, 2^64, 1e25.  They are numbers for typing and equality, larger than every
   ordinary number; arithmetic on them is left unspecified (float rounding), see Builtins. *)
BigV(k) == <<"num", k, 0>>
IsBig(v) == v[1] = "num" /\ v[3] = 0
BigDigits == << <<49, 48, 48, 48, 48, 48, 48, 48, 48, 48, 48, 48, 48, 48, 48, 48, 48, 48, 48, 48>>,
                <<49, 56, 52, 52, 54, 55, 52, 52, 48, 55, 51, 55, 48, 57, 53, 53, 49, 54, 49, 54>>,
                <<49, 48, 48, 48, 48, 48, 48, 48, 48, 48, 48, 48, 48, 48, 48, 48, 48, 48, 48, 48, 48, 48, 48, 48, 48, 48>> >>
Null == <<"null">>
Bool(b) == <<"bool", b>>
Str(s) == <<"str", s>>
Arr(xs) == <<"arr", xs>>
Obj(kvs) == <<"obj", kvs>>
ExpRef(a) == <<"expref", a>>
JsonText(v) == <<"jsontext", v>>

Tag(v) == v[1]
IsNull(v) == v[1] = "null"
IsStrLike(v) == v[1] \in {"str", "jsontext"}

Min2(a, b) == IF a < b THEN a ELSE b
Max2(a, b) == IF a < b THEN b ELSE a
MinS(S) == CHOOSE x \in S : \A y \in S : x <= y
MaxS(S) == CHOOSE x \in S : \A y \in S : x >= y

(* Values arriving from JSON files (traces recorded from the implementation) have objects as a
   *sequence* of <<key, value>> pairs; FromJ brings them into the canonical set form. *)
RECURSIVE FromJ(_)
FromJ(v) == CASE v[1] = "arr" -> <<"arr", [i \in 1..Len(v[2]) |-> FromJ(v[2][i])]>>
              [] v[1] = "obj" -> <<"obj", {<<v[2][i][1], FromJ(v[2][i][2])>> : i \in 1..Len(v[2])}>>
              [] OTHER -> v

(* JSON data proper: no expression reference and no opaque text anywhere inside (C16). *)
RECURSIVE IsJSON(_)
IsJSON(v) == CASE v[1] \in {"null", "bool", "str", "jsontext"} -> TRUE
               [] v[1] = "num" -> v[3] >= 0
               [] v[1] = "arr" -> \A i \in 1..Len(v[2]) : IsJSON(v[2][i])
               [] v[1] = "obj" -> \A kv \in v[2] : IsJSON(kv[2])
               [] OTHER -> FALSE

RECURSIVE HasOpaque(_)
HasOpaque(v) == \/ v[1] = "jsontext"
                \/ (v[1] = "arr" /\ \E i \in 1..Len(v[2]) : HasOpaque(v[2][i]))
                \/ (v[1] = "obj" /\ \E kv \in v[2] : HasOpaque(kv[2]))

(* JMESPath truth: false, null, "", [] and {} are false-like; everything else (0 included) is true-like. *)
IsFalse(v) == CASE v[1] = "null" -> TRUE
                [] v[1] = "bool" -> ~v[2]
                [] v[1] = "str" -> v[2] = <<>>
                [] v[1] = "arr" -> v[2] = <<>>
                [] v[1] = "obj" -> v[2] = {}
                [] OTHER -> FALSE

(* Deep equality: never equal across types; 1 = 1.0 by rational normal form; objects are sets. *)
DeepEq(a, b) == IF a[1] # b[1] THEN FALSE ELSE a = b

NumLess(a, b) == IF a[3] = 0 \/ b[3] = 0 THEN (IF a[3] = 0 /\ b[3] = 0 THEN a[2] < b[2] ELSE b[3] = 0)
                 ELSE a[2] * b[3] < b[2] * a[3]
(* code-point (lexicographic) order on strings *)
SeqLess(s, t) == LET n == Min2(Len(s), Len(t))
                     d == {i \in 1..n : s[i] # t[i]}
                 IN IF d = {} THEN Len(s) < Len(t) ELSE s[MinS(d)] < t[MinS(d)]

Keys(o) == {kv[1] : kv \in o[2]}
Lookup(o, k) == LET m == {kv \in o[2] : kv[1] = k} IN
                IF m = {} THEN Null ELSE (CHOOSE kv \in m : TRUE)[2]

RECURSIVE Perms(_)
Perms(S) == IF S = {} THEN {<<>>} ELSE UNION {{<<x>> \o p : p \in Perms(S \ {x})} : x \in S}

TypeName(v) == CASE v[1] = "num" -> "number" [] v[1] \in {"str", "jsontext"} -> "string" [] v[1] = "bool" -> "boolean"
                 [] v[1] = "arr" -> "array" [] v[1] = "obj" -> "object" [] v[1] = "null" -> "null" [] OTHER -> "expref"

AddR(a, b) == Num(a[2] * b[3] + b[2] * a[3], a[3] * b[3])
RECURSIVE SumR(_)
SumR(xs) == IF xs = <<>> THEN IntV(0) ELSE AddR(Head(xs), SumR(Tail(xs)))

Rev(xs) == [i \in 1..Len(xs) |-> xs[Len(xs) + 1 - i]]

(* ------------------------------------------------------------------------------------------
   Text of values: JSON text as a code-point sequence (used to *spell* literals in generated
   source text, C14 / C15).  Decimal spelling exists for rationals whose denominator divides 10^4. *)
RECURSIVE Pow10(_)
Pow10(k) == IF k = 0 THEN 1 ELSE 10 * Pow10(k - 1)
RECURSIVE NatCps(_)
NatCps(n) == IF n < 10 THEN <<48 + n>> ELSE NatCps(n \div 10) \o <<48 + (n % 10)>>
IntCps(n) == IF n < 0 THEN <<45>> \o NatCps(-n) ELSE NatCps(n)
DecScale(q) == IF q = 0 THEN 0 ELSE IF 1 % q = 0 THEN 0 ELSE IF 10 % q = 0 THEN 1 ELSE IF 100 % q = 0 THEN 2
               ELSE IF 1000 % q = 0 THEN 3 ELSE IF 10000 % q = 0 THEN 4 ELSE -1
Spellable(v) == v[1] # "num" \/ DecScale(v[3]) >= 0
RECURSIVE PadLeft(_, _)
PadLeft(ds, n) == IF Len(ds) >= n THEN ds ELSE PadLeft(<<48>> \o ds, n)
NumCps(p, q) ==
  LET k == DecScale(q) IN
  IF q = 0 THEN BigDigits[p]
  ELSE IF k = 0 THEN IntCps(p)
  ELSE LET m == (AbsI(p) * Pow10(k)) \div q
           ds == PadLeft(NatCps(m), k + 1)
           n == Len(ds)
       IN (IF p < 0 THEN <<45>> ELSE <<>>) \o SubSeq(ds, 1, n - k) \o <<46>> \o SubSeq(ds, n - k + 1, n)

HexDigit(n) == IF n < 10 THEN 48 + n ELSE 87 + n
(* JSON string escaping: quote, backslash and controls are escaped, everything else is literal *)
RECURSIVE JsonEscape(_)
JsonEscape(s) ==
  IF s = <<>> THEN <<>>
  ELSE LET c == s[1]
           e == IF c = 34 THEN <<92, 34>> ELSE IF c = 92 THEN <<92, 92>>
                ELSE IF c < 32 THEN <<92, 117, 48, 48, HexDigit(c \div 16), HexDigit(c % 16)>>
                ELSE <<c>>
       IN e \o JsonEscape(Tail(s))
QuoteCps(s) == <<34>> \o JsonEscape(s) \o <<34>>

RECURSIVE SeqOfSet(_)
SeqOfSet(S) == IF S = {} THEN <<>> ELSE LET x == CHOOSE y \in S : TRUE IN <<x>> \o SeqOfSet(S \ {x})
RECURSIVE JoinCps(_, _)
JoinCps(parts, sep) == IF parts = <<>> THEN <<>> ELSE IF Len(parts) = 1 THEN parts[1]
                       ELSE parts[1] \o sep \o JoinCps(Tail(parts), sep)
RECURSIVE JsonTextCps(_)
JsonTextCps(v) ==
  CASE v[1] = "null" -> <<110, 117, 108, 108>>
    [] v[1] = "bool" -> IF v[2] THEN <<116, 114, 117, 101>> ELSE <<102, 97, 108, 115, 101>>
    [] v[1] = "num" -> NumCps(v[2], v[3])
    [] v[1] = "str" -> QuoteCps(v[2])
    [] v[1] = "arr" -> <<91>> \o JoinCps([i \in 1..Len(v[2]) |-> JsonTextCps(v[2][i])], <<44>>) \o <<93>>
    [] v[1] = "obj" -> LET kvs == SeqOfSet(v[2]) IN
                       <<123>> \o JoinCps([i \in 1..Len(kvs) |-> QuoteCps(kvs[i][1]) \o <<58>> \o JsonTextCps(kvs[i][2])], <<44>>) \o <<125>>

RECURSIVE AllSpellable(_)
AllSpellable(v) == CASE v[1] = "num" -> DecScale(v[3]) >= 0
                     [] v[1] = "arr" -> \A i \in 1..Len(v[2]) : AllSpellable(v[2][i])
                     [] v[1] = "obj" -> \A kv \in v[2] : AllSpellable(kv[2])
                     [] v[1] \in {"null", "bool", "str"} -> TRUE
                     [] OTHER -> FALSE
=============================================================================
