----------------------------- MODULE Builtins -----------------------------
(* The 26 built-in functions: signature table (mirrors functions.go's functionTable, one entry per
   name) and the result each one must return (C09), with argument checking (C10).
   The four functions that evaluate an expression reference (map, sort_by, max_by, min_by) need the
   evaluator and are completed in Eval.tla; everything here is pure.

   Outcomes:  <<"ok", v>>  |  <<"err">>  |  <<"unspec">> (the JMESPath documents leave it open and
   no listed property constrains it)  |  <<"numornull">> (any finite number or null: to_number of a
   string that some number syntaxes accept and others do not)  |  <<"panic">> (only behind Dev). *)
EXTENDS AST

Ok(v) == <<"ok", v>>
ERR == <<"err">>
UNSPEC == <<"unspec">>
NUMORNULL == <<"numornull">>
PANIC == <<"panic">>
OkS(v) == {Ok(v)}
ErrS == {ERR}
IsOk(o) == o[1] = "ok"
(* sequencing in the error monad, lifted to outcome sets *)
(* An error (or a panic of a deviation) of the sub-expression is the outcome of the whole.  The open outcomes are not:
   "any finite number or null" says something about the value of THAT sub-expression only; what an enclosing
   construct makes of the unknown value is unspecified, so numornull becomes unspec when it passes through a context. *)
Up(o) == IF o = NUMORNULL THEN UNSPEC ELSE o
Bind(S, F(_)) == UNION {IF o[1] = "ok" THEN F(o[2]) ELSE {Up(o)} : o \in S}

NameCps == [abs |-> <<97, 98, 115>>,
            avg |-> <<97, 118, 103>>,
            ceil |-> <<99, 101, 105, 108>>,
            contains |-> <<99, 111, 110, 116, 97, 105, 110, 115>>,
            ends_with |-> <<101, 110, 100, 115, 95, 119, 105, 116, 104>>,
            floor |-> <<102, 108, 111, 111, 114>>,
            join |-> <<106, 111, 105, 110>>,
            keys |-> <<107, 101, 121, 115>>,
            length |-> <<108, 101, 110, 103, 116, 104>>,
            map |-> <<109, 97, 112>>,
            max |-> <<109, 97, 120>>,
            max_by |-> <<109, 97, 120, 95, 98, 121>>,
            merge |-> <<109, 101, 114, 103, 101>>,
            min |-> <<109, 105, 110>>,
            min_by |-> <<109, 105, 110, 95, 98, 121>>,
            not_null |-> <<110, 111, 116, 95, 110, 117, 108, 108>>,
            reverse |-> <<114, 101, 118, 101, 114, 115, 101>>,
            sort |-> <<115, 111, 114, 116>>,
            sort_by |-> <<115, 111, 114, 116, 95, 98, 121>>,
            starts_with |-> <<115, 116, 97, 114, 116, 115, 95, 119, 105, 116, 104>>,
            sum |-> <<115, 117, 109>>,
            to_array |-> <<116, 111, 95, 97, 114, 114, 97, 121>>,
            to_string |-> <<116, 111, 95, 115, 116, 114, 105, 110, 103>>,
            to_number |-> <<116, 111, 95, 110, 117, 109, 98, 101, 114>>,
            type |-> <<116, 121, 112, 101>>,
            values |-> <<118, 97, 108, 117, 101, 115>>]
FnNames == DOMAIN NameCps
(* the TLA+ name of a function given its spelling, "?" when unknown *)
FnOf(cps) == IF \E n \in FnNames : NameCps[n] = cps THEN CHOOSE n \in FnNames : NameCps[n] = cps ELSE "?"
Call1(name, a) == Fn(NameCps[name], <<a>>)
Call2(name, a, b) == Fn(NameCps[name], <<a, b>>)

TypeWords == [number |-> <<110, 117, 109, 98, 101, 114>>, string |-> <<115, 116, 114, 105, 110, 103>>,
              boolean |-> <<98, 111, 111, 108, 101, 97, 110>>, array |-> <<97, 114, 114, 97, 121>>,
              object |-> <<111, 98, 106, 101, 99, 116>>, null |-> <<110, 117, 108, 108>>]

IsArrOf(v, t) == v[1] = "arr" /\ \A i \in 1..Len(v[2]) : v[2][i][1] = t
TypeIs(v, t) == CASE t = "number" -> v[1] = "num"
                  [] t = "string" -> IsStrLike(v)
                  [] t = "array" -> v[1] = "arr"
                  [] t = "object" -> v[1] = "obj"
                  [] t = "array[number]" -> IsArrOf(v, "num")
                  [] t = "array[string]" -> v[1] = "arr" /\ \A i \in 1..Len(v[2]) : IsStrLike(v[2][i])
                  [] t = "expref" -> v[1] = "expref"
                  [] t = "any" -> (v[1] # "expref" \/ "ExprefAsAny" \in Dev)

(* name -> <<argument specs (a set of admissible types each), last spec variadic?, known?>> *)
Sig(name) ==
  CASE name = "abs" -> <<<<{"number"}>>, FALSE, TRUE>>
    [] name = "avg" -> <<<<{"array[number]"}>>, FALSE, TRUE>>
    [] name = "ceil" -> <<<<{"number"}>>, FALSE, TRUE>>
    [] name = "contains" -> <<<<{"array", "string"}, {"any"}>>, FALSE, TRUE>>
    [] name = "ends_with" -> <<<<{"string"}, {"string"}>>, FALSE, TRUE>>
    [] name = "floor" -> <<<<{"number"}>>, FALSE, TRUE>>
    [] name = "join" -> <<<<{"string"}, {"array[string]"}>>, FALSE, TRUE>>
    [] name = "keys" -> <<<<{"object"}>>, FALSE, TRUE>>
    [] name = "length" -> <<<<{"string", "array", "object"}>>, FALSE, TRUE>>
    [] name = "map" -> <<<<{"expref"}, {"array"}>>, FALSE, TRUE>>
    [] name = "max" -> <<<<{"array[number]", "array[string]"}>>, FALSE, TRUE>>
    [] name = "max_by" -> <<<<{"array"}, {"expref"}>>, FALSE, TRUE>>
    [] name = "merge" -> <<<<{"object"}>>, TRUE, TRUE>>
    [] name = "min" -> <<<<{"array[number]", "array[string]"}>>, FALSE, TRUE>>
    [] name = "min_by" -> <<<<{"array"}, {"expref"}>>, FALSE, TRUE>>
    [] name = "not_null" -> <<<<{"any"}>>, TRUE, TRUE>>
    [] name = "reverse" -> <<<<{"array", "string"}>>, FALSE, TRUE>>
    [] name = "sort" -> <<<<{"array[number]", "array[string]"}>>, FALSE, TRUE>>
    [] name = "sort_by" -> <<<<{"array"}, {"expref"}>>, FALSE, TRUE>>
    [] name = "starts_with" -> <<<<{"string"}, {"string"}>>, FALSE, TRUE>>
    [] name = "sum" -> <<<<{"array[number]"}>>, FALSE, TRUE>>
    [] name = "to_array" -> <<<<{"any"}>>, FALSE, TRUE>>
    [] name = "to_string" -> <<<<{"any"}>>, FALSE, TRUE>>
    [] name = "to_number" -> <<<<{"any"}>>, FALSE, TRUE>>
    [] name = "type" -> <<<<{"any"}>>, FALSE, TRUE>>
    [] name = "values" -> <<<<{"object"}>>, FALSE, TRUE>>
    [] OTHER -> <<<<>>, FALSE, FALSE>>

ArityOK(name, args) ==
  LET sg == Sig(name) n == Len(sg[1]) IN
  sg[3] /\ (IF sg[2] THEN Len(args) >= n ELSE Len(args) = n)
(* every argument, every variadic one included, satisfies the spec of its position *)
TypesOK(name, args) ==
  LET sg == Sig(name) specs == sg[1] n == Len(specs) IN
  \A i \in 1..Len(args) : LET sp == specs[IF i <= n THEN i ELSE n] IN \E t \in sp : TypeIs(args[i], t)
ArgsOK(name, args) == ArityOK(name, args) /\ TypesOK(name, args)

(* ordering of keys that are all numbers or all strings *)
KeyLess(a, b) == IF a[1] = "num" THEN NumLess(a, b) ELSE SeqLess(a[2], b[2])
(* indices of keys in stable ascending order: repeatedly take the least key, leftmost among equals *)
RECURSIVE StableOrder(_, _)
StableOrder(keys, R) ==
  IF R = {} THEN <<>>
  ELSE LET m == CHOOSE i \in R : \A j \in R : \/ KeyLess(keys[i], keys[j])
                                             \/ (~KeyLess(keys[j], keys[i]) /\ i <= j)
       IN <<m>> \o StableOrder(keys, R \ {m})
KeysUniform(keys) == \/ \A i \in 1..Len(keys) : keys[i][1] = "num"
                     \/ \A i \in 1..Len(keys) : keys[i][1] = "str"
(* first index whose key is extremal *)
ArgBest(keys, better(_, _)) == CHOOSE i \in 1..Len(keys) :
     /\ \A j \in 1..Len(keys) : ~better(keys[j], keys[i])
     /\ \A j \in 1..(i - 1) : better(keys[i], keys[j])

IsDigit(c) == c \in 48..57
RECURSIVE DigitsVal(_)
DigitsVal(ds) == IF ds = <<>> THEN 0 ELSE DigitsVal(SubSeq(ds, 1, Len(ds) - 1)) * 10 + (ds[Len(ds)] - 48)
(* to_number of a string.  A strict JSON number without exponent and short enough for TLC's integers
   has its exact value; a string that starts like a number in *some* syntax (sign, digit, dot, or the
   first letter of inf / nan) may be a finite number or null; anything else is null. *)
ParseNum(s) ==
  LET neg == Len(s) >= 1 /\ s[1] = 45
      body == IF neg THEN Tail(s) ELSE s
      dots == {i \in 1..Len(body) : body[i] = 46}
      ip == IF dots = {} THEN body ELSE SubSeq(body, 1, MinS(dots) - 1)
      fp == IF dots = {} THEN <<>> ELSE SubSeq(body, MinS(dots) + 1, Len(body))
      allDig(x) == \A i \in 1..Len(x) : IsDigit(x[i])
      okInt == Len(ip) >= 1 /\ allDig(ip) /\ (Len(ip) = 1 \/ ip[1] # 48)
      okFrac == dots = {} \/ (Cardinality(dots) = 1 /\ Len(fp) >= 1 /\ allDig(fp))
  IN IF okInt /\ okFrac /\ Len(ip) <= 5 /\ Len(fp) <= 3
     THEN LET mag == Num(DigitsVal(ip) * Pow10(Len(fp)) + DigitsVal(fp), Pow10(Len(fp)))
          IN <<"exact", IF neg THEN Num(-mag[2], mag[3]) ELSE mag>>
     ELSE IF s # <<>> /\ (IsDigit(s[1]) \/ s[1] \in {43, 45, 46, 73, 105, 78, 110}) THEN <<"maybe">>
     ELSE <<"no">>

IsSubSeqAt(s, t, i) == i + Len(t) - 1 <= Len(s) /\ \A j \in 1..Len(t) : s[i + j - 1] = t[j]
HasSubSeq(s, t) == \E i \in 1..(Len(s) + 1) : IsSubSeqAt(s, t, i)
RECURSIVE JoinS(_, _)
JoinS(g, xs) == IF xs = <<>> THEN <<>> ELSE IF Len(xs) = 1 THEN xs[1][2] ELSE xs[1][2] \o g \o JoinS(g, Tail(xs))
(* right-biased union of a sequence of objects *)
RECURSIVE MergeAll(_)
MergeAll(os) == IF os = <<>> THEN {}
                ELSE LET n == Len(os) rest == MergeAll(SubSeq(os, 1, n - 1)) last == os[n][2] IN
                     {kv \in rest : \A kv2 \in last : kv2[1] # kv[1]} \cup last
(* an argument whose text is opaque: any function that looks inside the text is unspecified on it *)
Opaque(args) == \E i \in 1..Len(args) : \/ args[i][1] = "jsontext"
                                        \/ (args[i][1] = "arr" /\ \E j \in 1..Len(args[i][2]) : args[i][2][j][1] = "jsontext")
OpaqueSafe == {"to_string", "type", "not_null", "to_array", "to_number", "merge", "values", "map"}
ByExpr == {"map", "sort_by", "max_by", "min_by"}

(* result of a pure built-in on arguments that satisfy its signature *)
HasBig(xs) == \E i \in 1..Len(xs) : xs[i][1] = "num" /\ xs[i][3] = 0
PureResult(name, args) ==
  LET a == args[1] IN
  CASE name \in {"abs", "ceil", "floor"} /\ IsBig(a) -> OkS(a)
    [] name \in {"avg", "sum"} /\ HasBig(a[2]) -> {UNSPEC}
    [] name = "abs" -> OkS(Num(AbsI(a[2]), a[3]))
    [] name = "avg" -> IF a[2] = <<>> THEN (IF "AvgEmptyNaN" \in Dev THEN OkS(<<"nonfinite">>) ELSE OkS(Null))
                       ELSE OkS(LET s == SumR(a[2]) IN Num(s[2], s[3] * Len(a[2])))
    [] name = "ceil" -> OkS(IntV(-((-a[2]) \div a[3])))
    [] name = "floor" -> OkS(IntV(a[2] \div a[3]))
    [] name = "contains" -> IF a[1] = "str"
                            THEN (IF args[2][1] = "str" THEN OkS(Bool(HasSubSeq(a[2], args[2][2]))) ELSE {Ok(Bool(FALSE)), ERR})
                            ELSE IF "ContainsIdentity" \in Dev /\ args[2][1] \in {"arr", "obj"} /\ a[2] # <<>> THEN {PANIC}
                            ELSE OkS(Bool(\E i \in 1..Len(a[2]) : DeepEq(a[2][i], args[2])))
    [] name = "ends_with" -> OkS(Bool(Len(args[2][2]) <= Len(a[2]) /\ IsSubSeqAt(a[2], args[2][2], Len(a[2]) - Len(args[2][2]) + 1)))
    [] name = "starts_with" -> OkS(Bool(IsSubSeqAt(a[2], args[2][2], 1)))
    [] name = "join" -> OkS(Str(JoinS(a[2], args[2][2])))
    [] name = "keys" -> {Ok(Arr([i \in 1..Len(p) |-> Str(p[i][1])])) : p \in Perms(a[2])}
    [] name = "values" -> {Ok(Arr([i \in 1..Len(p) |-> p[i][2]])) : p \in Perms(a[2])}
    [] name = "length" -> OkS(IntV(IF a[1] = "obj" THEN Cardinality(a[2]) ELSE Len(a[2])))
    [] name \in {"max", "min"} ->
         OkS(IF a[2] = <<>> THEN Null
             ELSE a[2][ArgBest(a[2], LAMBDA x, y : IF name = "max" THEN KeyLess(y, x) ELSE KeyLess(x, y))])
    [] name = "merge" -> OkS(Obj(MergeAll(args)))
    [] name = "not_null" -> OkS(LET nn == {i \in 1..Len(args) : args[i][1] # "null"} IN IF nn = {} THEN Null ELSE args[MinS(nn)])
    [] name = "reverse" -> OkS(<<a[1], Rev(a[2])>>)
    [] name = "sort" -> OkS(Arr(LET o == StableOrder(a[2], 1..Len(a[2])) IN [i \in 1..Len(o) |-> a[2][o[i]]]))
    [] name = "sum" -> OkS(SumR(a[2]))
    [] name = "to_array" -> OkS(IF a[1] = "arr" THEN a ELSE Arr(<<a>>))
    [] name = "to_string" -> OkS(IF IsStrLike(a) THEN a ELSE JsonText(a))
    [] name = "to_number" -> IF a[1] = "num" THEN OkS(a)
                             ELSE IF a[1] = "str" THEN (LET p == ParseNum(a[2]) IN
                                     IF p[1] = "exact" THEN OkS(p[2]) ELSE IF p[1] = "maybe" THEN {NUMORNULL} ELSE OkS(Null))
                             ELSE IF a[1] = "jsontext" THEN {NUMORNULL} ELSE OkS(Null)
    [] name = "type" -> OkS(Str(TypeWords[TypeName(a)]))

(* C10: unknown name, wrong arity and any ill-typed argument are errors *)
PureCall(name, args) ==
  IF ~ArityOK(name, args) THEN ErrS
  ELSE IF ~TypesOK(name, args)
       THEN (IF "UncheckedVariadic" \in Dev /\ Sig(name)[2] /\ name = "merge" THEN {PANIC} ELSE ErrS)
  ELSE IF Opaque(args) /\ name \notin OpaqueSafe THEN {UNSPEC}
  ELSE PureResult(name, args)
=============================================================================
