------------------------------ MODULE Gen_Api ------------------------------
(* Histories for replay (C13): every sequence of up to MaxCalls Search calls of one compiled expression over
   the document pool, and every sequence of up to MaxCalls Parse calls of one Parser over the text pool,
   with what the specification allows for each call -- which, by the theorem checked in MC_Api, depends
   only on the (expression, document) / on the text, never on the history. *)
EXTENDS ApiPools, Json, SequencesExt

CONSTANTS Shard, NShards, OutFile, Seed, Stride, MaxLenH

RECURSIVE PowN(_, _)
PowN(b, e) == IF e = 0 THEN 1 ELSE b * PowN(b, e - 1)
RECURSIVE CountSeqs(_, _)
CountSeqs(base, m) == IF m <= 0 THEN 0 ELSE CountSeqs(base, m - 1) + PowN(base, m)     \* sequences of length 1..n
RECURSIVE DigitsB(_, _, _)
DigitsB(x, base, len) == IF len = 0 THEN <<>> ELSE <<(x % base) + 1>> \o DigitsB(x \div base, base, len - 1)
SeqAt(j, base) == LET len == CHOOSE a \in 1..MaxLenH : CountSeqs(base, a - 1) <= j /\ j < CountSeqs(base, a) IN DigitsB(j - CountSeqs(base, len - 1), base, len)

ND == Len(MCDocs)
NT == Len(MCTexts)
NSearch == Len(MCAsts) * CountSeqs(ND, MaxLenH)
NParse == CountSeqs(NT, MaxLenH)
SearchRec(i) ==
  LET a == MCAsts[(i % Len(MCAsts)) + 1] j == i \div Len(MCAsts) IN
  [k |-> "hsearch", id |-> i, src |-> Render(UnparseMin(a), "tight"), seq |-> SeqAt(j, ND),
   allowed |-> [d \in 1..ND |-> Outcomes(a, MCDocs[d])]]
ParseExpect(t) == LET m == CompileModel(MCTexts[t]) IN IF m[1] = "ok" THEN "ok" ELSE IF m[1] = "err" THEN "err" ELSE "any"
ParseRec(i) == [k |-> "hparse", id |-> i, seq |-> SeqAt(i, NT)]
Mine(total) == LET per == (total + NShards - 1) \div NShards IN
               SelectSeq([m \in 1..per |-> (m - 1) * NShards + Shard], LAMBDA i : i < total /\ (i \div NShards) % Stride = Seed % Stride)
Out == LET ms == Mine(NSearch) mp == Mine(NParse) IN
       <<[k |-> "pools", docs |-> MCDocs, texts |-> MCTexts, expect |-> [t \in 1..NT |-> ParseExpect(t)]]>>
       \o [m \in 1..Len(ms) |-> SearchRec(ms[m])] \o [m \in 1..Len(mp) |-> ParseRec(mp[m])]
ASSUME LET out == Out IN PrintT(<<"GEN", "histories", Len(out) - 1>>) /\ ndJsonSerialize(OutFile, out)
VARIABLE x
Init == x = 0
Next == x' = x
=============================================================================
