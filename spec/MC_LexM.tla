------------------------------ MODULE MC_LexM ------------------------------
(* Model of LexM over every string up to MaxLen characters, and over histories of up to Calls tokenize() calls on
   the lexer a Parser uses: a text is built character by character, the machine is started on it and run to Done,
   then the next text is built.  Between calls only the lexer object's buffer survives (and only with the switch
   "ReuseLexer"; the code makes a new Lexer per Parse), so histories do not multiply the state space. *)
EXTENDS LexM

CONSTANTS MaxLen, Calls
Coarse == {97, 110, 98, 49, 95, 32, 34, 39, 96, 92, 91, 93, 63, 124, 61, 38, 45, 46, 117, 1, 9, 127, 128, 233, 119070, 65533, 123, 58, -255}
VARIABLES s, phase, calls
vars == <<s, phase, calls, src, k, lw, ltoks, buf, mode, aux, res, steps>>

Init == /\ s = <<>> /\ phase = "build" /\ calls = 0 /\ buf = <<>>
        /\ src = <<>> /\ k = 0 /\ lw = 0 /\ ltoks = <<>> /\ mode = "idle" /\ aux = NoAux /\ res = LNone /\ steps = 0
Build == /\ phase = "build" /\ Len(s) < MaxLen
         /\ \E c \in Coarse : s' = Append(s, c)
         /\ UNCHANGED <<phase, calls, src, k, lw, ltoks, buf, mode, aux, res, steps>>
Start == /\ phase = "build" /\ phase' = "run" /\ calls' = calls + 1 /\ LStartOn(s) /\ UNCHANGED s
Run == phase = "run" /\ LStep /\ UNCHANGED <<s, phase, calls>>
(* the call has returned: forget everything but the lexer object's buffer, build the next text *)
Again == /\ phase = "run" /\ LDone /\ calls < Calls
         /\ phase' = "build" /\ s' = <<>> /\ UNCHANGED <<calls, buf>>
         /\ src' = <<>> /\ k' = 0 /\ lw' = 0 /\ ltoks' = <<>> /\ mode' = "idle" /\ aux' = NoAux /\ res' = LNone /\ steps' = 0
Next == Build \/ Start \/ Run \/ Again
Spec == Init /\ [][Next]_vars
FairSpec == Spec /\ WF_vars(Run)

Refines == (phase = "run" /\ LDone) => res = Lex(s)
Inv == phase = "run" => (KInRange /\ Linear /\ TokOrder /\ BufClean)
NeverStuck == (phase = "run" /\ ~LDone) => ENABLED Run
Terminates == [](phase = "run" => <>LDone)
=============================================================================
