----------------------------- MODULE Trace_Parse -----------------------------
(* Trace validation of the front-end machines (LexM.tla, ParserM.tla): for every Compile event of a recorded API
   trace the harness logged the real lexer's token stream (hook VerifTokenize: type, value, byte position, length)
   and the parser's nud / led steps (hook verifStep: kind, token type), in order.  The specification runs its
   lexer machine on the source text rune by rune, compares the tokens at LDone, hands them (converted by
   Text!ToPTok) to the parser machine, runs that step by step, and at Done compares the machine's trail with the
   logged sequence.  The verdict of the compile is compared by Trace_Api (C04); here the control flow is bound:

     "ltoks"    the real token stream differs from the lexer machine's (types, values, positions, lengths)
     "loffset"  the lexer machine ends in a syntax error at another offset than the real SyntaxError
     "ptrail"   the logged nud / led sequence differs from the parser machine's
   All three are reported as drift: the properties do not fix token boundaries or the parser's control flow,
   only what is accepted, which tree is built and that offsets are inside the expression; a difference says that
   the machines no longer describe how lexer.go / parser.go work.  The machines' invariants (read positions in
   range, linear step count, token order, consumed-token progress, bounded stack) are checked on every real
   input (MachineInv).

   Lines that are not Compile events and texts outside the lexer model are skipped.  The machines are
   deterministic, so the trace specification has one behaviour; it ends with a PrintT of the counters, which
   the driver requires. *)
EXTENDS Text, ParserM, LexM, Json

CONSTANTS TraceFile, Shard, NShards      \* this run validates the lines l with l % NShards = Shard (shards run in parallel)
Trace == ndJsonDeserialize(TraceFile)

Last == Len(Trace)
Mine(n) == n % NShards = Shard

VARIABLES l, pdrift, pstats
vars == <<l, pdrift, pstats, toks, stack, ret, trail, lvars>>

Init == /\ l = 1 /\ pdrift = {} /\ pstats = [compiles |-> 0, steps |-> 0, events |-> 0, skipped |-> 0, lexed |-> 0, lsteps |-> 0, ltokens |-> 0]
        /\ toks = <<EOFT>> /\ stack = <<>> /\ ret = None /\ trail = <<>>
        /\ src = <<>> /\ k = 0 /\ lw = 0 /\ ltoks = <<>> /\ buf = <<>> /\ mode = "idle" /\ aux = NoAux /\ res = LNone /\ steps = 0

Idle == stack = <<>> /\ ret = None /\ mode = "idle"
LexIdle == /\ src' = <<>> /\ k' = 0 /\ lw' = 0 /\ ltoks' = <<>> /\ mode' = "idle" /\ aux' = NoAux /\ res' = LNone /\ steps' = 0 /\ UNCHANGED buf
TokDiffers(spec, real) ==
  \/ Len(spec) # Len(real)
  \/ \E i \in 1..Len(spec) : \/ spec[i][1] # real[i][1] \/ spec[i][3] # real[i][3] \/ spec[i][4] # real[i][4]
                               \/ (spec[i][1] \in {"uid", "qid", "number", "jsonlit", "strlit"} /\ spec[i][2] # real[i][2])
IsCompile(ev) == ev.op = "Compile" /\ ev.hasPev
Skip == /\ Idle /\ l <= Last /\ (~Mine(l) \/ ~IsCompile(Trace[l]))
        /\ l' = l + 1 /\ pstats' = [pstats EXCEPT !.skipped = @ + 1]
        /\ UNCHANGED <<pdrift, toks, stack, ret, trail, lvars>>
(* Parser.Parse: a new lexer tokenizes the text ... *)
Begin == /\ Idle /\ l <= Last /\ Mine(l) /\ IsCompile(Trace[l])
         /\ LStartOn(Trace[l].text)
         /\ UNCHANGED <<l, pdrift, pstats, toks, stack, ret, trail>>
LRun == /\ LStep /\ pstats' = [pstats EXCEPT !.lsteps = @ + 1] /\ UNCHANGED <<l, pdrift, toks, stack, ret, trail>>
(* ... and, unless the lexer failed, parseExpression(0) runs on the tokens *)
LEnd == /\ LDone /\ stack = <<>> /\ ret = None
        /\ LET ev == Trace[l] IN
           /\ pdrift' = pdrift \cup (IF res[1] = "ok" /\ ev.toks # <<>> /\ TokDiffers(res[2], ev.toks) THEN {[line |-> l, why |-> "ltoks"]} ELSE {})
                               \cup (IF res[1] = "syntax" /\ ~ev.ok /\ ev.offset >= 0 /\ ev.offset # res[2] THEN {[line |-> l, why |-> "loffset"]} ELSE {})
           /\ IF res[1] = "ok"
              THEN /\ StartOn([i \in 1..Len(res[2]) |-> ToPTok(res[2][i])])
                   /\ pstats' = [pstats EXCEPT !.lexed = @ + 1, !.ltokens = @ + Len(res[2])] /\ UNCHANGED l
              ELSE /\ l' = l + 1 /\ pstats' = [pstats EXCEPT !.lexed = @ + 1] /\ UNCHANGED <<toks, stack, ret, trail>>
        /\ LexIdle
Run == /\ Step /\ pstats' = [pstats EXCEPT !.steps = @ + 1] /\ UNCHANGED <<l, pdrift, lvars>>
End == /\ Done /\ mode = "idle"
       /\ pdrift' = pdrift \cup (IF Events = Trace[l].pev THEN {} ELSE {[line |-> l, why |-> "ptrail"]})
       /\ pstats' = [pstats EXCEPT !.compiles = @ + 1, !.events = @ + Len(trail)]
       /\ l' = l + 1 /\ stack' = <<>> /\ ret' = None /\ UNCHANGED <<toks, trail, lvars>>
Report == /\ Idle /\ l = Last + 1
          /\ PrintT(<<"PDRIFT", ToJson(pdrift)>>) /\ PrintT(<<"PSTATS", ToJson(pstats)>>)
          /\ l' = l + 1 /\ UNCHANGED <<pdrift, pstats, toks, stack, ret, trail, lvars>>

Next == Skip \/ Begin \/ LRun \/ LEnd \/ Run \/ End \/ Report
Spec == Init /\ [][Next]_vars
(* the machine's invariants hold on every real input too *)
MachineInv == /\ (stack # <<>>) => (IdxInRange /\ Progress /\ Bounded)
              /\ (mode \notin {"idle"}) => (KInRange /\ Linear /\ TokOrder /\ BufClean)
=============================================================================
