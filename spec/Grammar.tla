------------------------------ MODULE Grammar ------------------------------
(* The JMESPath grammar (the ABNF of the specification) as a chart recogniser over token types (C04).
   Chart[<<i, j>>] = set of nonterminals deriving toks[i..j] (inclusive), built by increasing span.

   Nonterminals:  E expression, R right side of "." , BS bracket-specifier, BSp bracket-specifier that
   starts a projection, P projection (for the deviation production), MSL multi-select-list, MSH
   multi-select-hash, KV keyval-expr, F function-expression, EL / KL non-empty comma lists.

   Two points are settled by the property statements rather than by the bare ABNF: "&" expression is an
   expression wherever an expression may stand, and the empty quoted identifier is an identifier.

   Named deviation production (only in GrammaticalD1): a multi-select-list directly after a
   projection (a[*][b], *[a], [][a]) -- accepted by this and by the reference implementation although
   no production derives it. *)
EXTENDS Lexer

GCmpOps == {"eq", "ne", "lt", "lte", "gt", "gte"}
GBinOps == {"pipe", "or", "and"} \cup GCmpOps
SlicePats == { <<"colon">>, <<"number", "colon">>, <<"colon", "number">>, <<"number", "colon", "number">>,
               <<"colon", "colon">>, <<"number", "colon", "colon">>, <<"colon", "number", "colon">>, <<"number", "colon", "number", "colon">>,
               <<"colon", "colon", "number">>, <<"number", "colon", "colon", "number">>, <<"colon", "number", "colon", "number">>,
               <<"number", "colon", "number", "colon", "number">> }

TypesOf(toks, i, j) == [k \in 1..(j - i + 1) |-> toks[i + k - 1][1]]

NTs(toks, ch, i, j, d1) ==
  LET ty(k) == toks[k][1]
      len == j - i + 1
      Has(nt, a, b) == a <= b /\ nt \in ch[<<a, b>>]
      E1 == len = 1 /\ ty(i) \in {"uid", "qid", "star", "jsonlit", "strlit", "current"}
      EPre == len >= 2 /\ ty(i) \in {"not", "expref"} /\ Has("E", i + 1, j)
      EPar == len >= 3 /\ ty(i) = "lparen" /\ ty(j) = "rparen" /\ Has("E", i + 1, j - 1)
      R1 == len = 1 /\ ty(i) \in {"uid", "qid", "star"}
      MSL0 == len >= 3 /\ ty(i) = "lbracket" /\ ty(j) = "rbracket" /\ Has("EL", i + 1, j - 1)
      MSH0 == len >= 5 /\ ty(i) = "lbrace" /\ ty(j) = "rbrace" /\ Has("KL", i + 1, j - 1)
      F == \/ len = 3 /\ ty(i) = "uid" /\ ty(i + 1) = "lparen" /\ ty(j) = "rparen"
           \/ len >= 4 /\ ty(i) = "uid" /\ ty(i + 1) = "lparen" /\ ty(j) = "rparen" /\ Has("EL", i + 2, j - 1)
      BS == \/ len = 1 /\ ty(i) = "flatten"
            \/ len = 3 /\ ty(i) = "lbracket" /\ ty(i + 1) \in {"number", "star"} /\ ty(j) = "rbracket"
            \/ len >= 3 /\ ty(i) = "lbracket" /\ ty(j) = "rbracket" /\ TypesOf(toks, i + 1, j - 1) \in SlicePats
            \/ len >= 3 /\ ty(i) = "filter" /\ ty(j) = "rbracket" /\ Has("E", i + 1, j - 1)
      BSp == BS /\ ~(len = 3 /\ ty(i) = "lbracket" /\ ty(i + 1) = "number")
      Pn == \/ len = 1 /\ ty(i) = "star"
            \/ len >= 3 /\ ty(j) = "star" /\ ty(j - 1) = "dot" /\ Has("E", i, j - 2)
            \/ BSp
            \/ \E k \in i..(j - 1) : Has("E", i, k) /\ Has("BSp", k + 1, j)
      Dev1 == d1 /\ \E k \in i..(j - 1) : Has("P", i, k) /\ Has("MSL", k + 1, j)
      Rr == R1 \/ MSL0 \/ MSH0 \/ F
      ESub == \E k \in (i + 1)..(j - 1) : ty(k) = "dot" /\ Has("E", i, k - 1) /\ Has("R", k + 1, j)
      EBin == \E k \in (i + 1)..(j - 1) : ty(k) \in GBinOps /\ Has("E", i, k - 1) /\ Has("E", k + 1, j)
      EBS == \E k \in i..(j - 1) : Has("E", i, k) /\ Has("BS", k + 1, j)
      EL == \E k \in (i + 1)..(j - 1) : ty(k) = "comma" /\ Has("EL", i, k - 1) /\ Has("E", k + 1, j)
      KVx == len >= 3 /\ ty(i) \in {"uid", "qid"} /\ ty(i + 1) = "colon" /\ Has("E", i + 2, j)
      KL == \E k \in (i + 1)..(j - 1) : ty(k) = "comma" /\ Has("KL", i, k - 1) /\ Has("KV", k + 1, j)
      isE == Dev1 \/ E1 \/ EPre \/ EPar \/ MSL0 \/ MSH0 \/ F \/ BS \/ ESub \/ EBin \/ EBS
  IN  (IF isE THEN {"E", "EL"} ELSE (IF EL THEN {"EL"} ELSE {}))
      \cup (IF Rr THEN {"R"} ELSE {})
      \cup (IF BS THEN {"BS"} ELSE {}) \cup (IF BSp THEN {"BSp"} ELSE {}) \cup (IF Pn THEN {"P"} ELSE {}) \cup (IF MSL0 THEN {"MSL"} ELSE {})
      \cup (IF KVx THEN {"KV", "KL"} ELSE (IF KL THEN {"KL"} ELSE {}))

RECURSIVE BuildChart(_, _, _, _)
BuildChart(toks, len, ch, d1) ==
  LET n == Len(toks) IN
  IF len > n THEN ch
  ELSE LET new == [p \in {<<i, i + len - 1>> : i \in 1..(n - len + 1)} |-> NTs(toks, ch, p[1], p[2], d1)]
       IN BuildChart(toks, len + 1, ch @@ new, d1)

(* toks WITHOUT the eof token; only the token types matter *)
GrammaticalX(toks, d1) == Len(toks) >= 1 /\ "E" \in BuildChart(toks, 1, <<>>, d1)[<<1, Len(toks)>>]
Grammatical(toks) == GrammaticalX(toks, FALSE)
(* sentences of the grammar extended by the deviation production D1 *)
GrammaticalD1(toks) == GrammaticalX(toks, TRUE)
=============================================================================
