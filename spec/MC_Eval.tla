------------------------------ MODULE MC_Eval ------------------------------
(* Model checking of the evaluator properties ON THE SPECIFICATION (layer L1): for every expression
   of the family's bounded universe and every document of the family, the theorem of the family
   holds of Outcomes.  This validates the oracle and shows the property is a consequence of the
   specified semantics; the generators then carry the same universes to the real code.

   The universe is walked as a state space so that TLC's workers share the work:
     root --Pick block--> block b --Pick index--> expression i (i % NBlocks = b)
   and the invariant Holds is evaluated in every "expression" state, on all documents at once.
   The heavy tables live in the variable g, which VIEW hides from fingerprinting. *)
EXTENDS Families

CONSTANTS NBlocks, Stride, Seed

VARIABLES g, blk, idx
vars == <<g, blk, idx>>
View == <<blk, idx>>

Init == g = Ctx /\ blk = -1 /\ idx = -1
PickBlock == blk = -1 /\ blk' \in 0..(NBlocks - 1) /\ UNCHANGED <<g, idx>>
PickIndex == /\ blk >= 0 /\ idx = -1
             /\ idx' \in {j \in 0..(g.total - 1) : j % NBlocks = blk /\ (j \div NBlocks) % Stride = Seed % Stride}
             /\ UNCHANGED <<g, blk>>
Next == PickBlock \/ PickIndex
Spec == Init /\ [][Next]_vars

(* ---- theorems ------------------------------------------------------------------------------ *)
IsCoreKind(e) == e[1] \notin {"ValueProjection", "FunctionExpression"}
RECURSIVE AllCore(_)
AllCore(e) == IsCoreKind(e) /\ \A i \in 1..Len(Kids(e)) : AllCore(Kids(e)[i])

(* C01: total, deterministic (no object iteration in the core fragment), results are JSON;
   a negative index is the same as its positive counterpart; a multi-select on a non-null value has
   one entry per member; a field of a non-object, and any index of a non-array, is null. *)
CoreThm(e, d) ==
  LET o == Outcomes(e, d) IN
  /\ o # {}
  /\ (AllCore(e) => Cardinality(o) = 1)
  /\ \A x \in o : x[1] \in {"ok", "err"} /\ (x[1] = "ok" => IsJSON(x[2]))
  /\ (e[1] = "IndexExpression" /\ e[3][1] = "Index" /\ e[3][2] < 0 =>
        \A x \in Outcomes(e[2], d) : x[1] = "ok" /\ x[2][1] = "arr" /\ Len(x[2][2]) + e[3][2] >= 0 =>
            Outcomes(Index(e[3][2]), x[2]) = Outcomes(Index(Len(x[2][2]) + e[3][2]), x[2]))
  /\ (e[1] = "MultiSelectList" /\ d[1] # "null" => \A x \in o : x[1] = "ok" => (x[2][1] = "arr" /\ Len(x[2][2]) = Len(e[2])))
  /\ (e[1] = "MultiSelectList" /\ d[1] = "null" => o = OkS(Null))
  /\ (e[1] = "MultiSelectHash" /\ d[1] # "null" => \A x \in o : x[1] = "ok" =>
          (x[2][1] = "obj" /\ Keys(x[2]) = {e[2][i][2] : i \in 1..Len(e[2])}))
  /\ (e[1] = "Field" /\ d[1] # "obj" => o = OkS(Null))
  /\ (e[1] = "Index" /\ d[1] # "arr" => o = OkS(Null))

Thm(e, d) == CASE Family = "C01" -> CoreThm(e, d)

Holds == idx >= 0 => LET e == ExprAt(g, idx) IN \A d \in 1..Len(g.docs) : Thm(e, g.docs[d])
=============================================================================
