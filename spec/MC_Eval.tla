------------------------------ MODULE MC_Eval ------------------------------
(* Model checking of the evaluator properties ON THE SPECIFICATION (layer L1): for every expression
   of the family's bounded universe and every document of the family, the theorem of the family
   holds of Outcomes.  This validates the oracle and shows the property is a consequence of the
   specified semantics; the generators then carry the same universes to the real code.

   The universe is walked as a state space so that TLC's workers share the work:
     root --Pick block--> block b --Pick index--> expression i (i % NBlocks = b)
   and the invariant Holds is evaluated in every "expression" state, on all documents at once.
   The heavy tables live in the variable g, which VIEW hides from fingerprinting. *)
EXTENDS Families, Strict, Parser

CONSTANTS NBlocks, Stride, Stride3, Seed

VARIABLES g, blk, idx
vars == <<g, blk, idx>>
View == <<blk, idx>>

Init == g = Ctx /\ blk = -1 /\ idx = -1
PickBlock == blk = -1 /\ blk' \in 0..(NBlocks - 1) /\ UNCHANGED <<g, idx>>
PickIndex == /\ blk >= 0 /\ idx = -1
             /\ idx' \in SeqSet(MineSeq(g, blk, NBlocks, Stride, Stride3, Seed))
             /\ UNCHANGED <<g, blk>>
Next == PickBlock \/ PickIndex
Spec == Init /\ [][Next]_vars

(* ---- theorems ------------------------------------------------------------------------------ *)
IsCoreKind(e) == e[1] \notin {"ValueProjection", "FunctionExpression"}
RECURSIVE AllCore(_)
AllCore(e) == IsCoreKind(e) /\ \A i \in 1..Len(Kids(e)) : AllCore(Kids(e)[i])

(* C01: total, deterministic (no object iteration in the core fragment), results are JSON;
   a negative index is the same as its positive counterpart; a multi-select on a non-null value has
   one entry per member; a field of a non-object, and any index of a non-array, is null. *)
CoreThm(e, d) ==
  LET o == Outcomes(e, d) IN
  /\ o # {}
  /\ (AllCore(e) => Cardinality(o) = 1)
  /\ \A x \in o : x[1] \in {"ok", "err"} /\ (x[1] = "ok" => IsJSON(x[2]))
  /\ (e[1] = "IndexExpression" /\ e[3][1] = "Index" /\ e[3][2] < 0 =>
        \A x \in Outcomes(e[2], d) : x[1] = "ok" /\ x[2][1] = "arr" /\ Len(x[2][2]) + e[3][2] >= 0 =>
            Outcomes(Index(e[3][2]), x[2]) = Outcomes(Index(Len(x[2][2]) + e[3][2]), x[2]))
  /\ (e[1] = "MultiSelectList" /\ d[1] # "null" => \A x \in o : x[1] = "ok" => (x[2][1] = "arr" /\ Len(x[2][2]) = Len(e[2])))
  /\ (e[1] = "MultiSelectList" /\ d[1] = "null" => o = OkS(Null))
  /\ (e[1] = "MultiSelectHash" /\ d[1] # "null" => \A x \in o : x[1] = "ok" =>
          (x[2][1] = "obj" /\ Keys(x[2]) = {e[2][i][2] : i \in 1..Len(e[2])}))
  /\ (e[1] = "Field" /\ d[1] # "obj" => o = OkS(Null))
  /\ (e[1] = "Index" /\ d[1] # "arr" => o = OkS(Null))

(* every outcome is ok / err / one of the declared open outcomes, and ok values are JSON (C16) *)
WellFormed(o) == /\ o # {}
                 /\ \A x \in o : x[1] \in {"ok", "err", "unspec", "numornull"} /\ (x[1] = "ok" => IsJSON(x[2]))
Det(SS) == Cardinality(SS) = 1
TheOk(SS) == (CHOOSE x \in SS : TRUE)[2]

(* C02: a projection's result is an array without nulls, no longer than what it iterates over; with
   the identity as right-hand side it is the left array minus nulls (order kept); an object wildcard
   has at most one entry per member, exactly the non-null member values for the identity;
   flatten leaves a flat array unchanged. *)
NoNullArr(v) == v[1] = "arr" /\ \A i \in 1..Len(v[2]) : v[2][i][1] # "null"
SeqBag(xs) == [y \in {xs[i] : i \in 1..Len(xs)} |-> Cardinality({i \in 1..Len(xs) : xs[i] = y})]
ProjThm(e, d) ==
  LET o == Outcomes(e, d) IN
  /\ WellFormed(o)
  /\ (e[1] \in {"Projection", "ValueProjection", "FilterProjection"} =>
        \A x \in o : x[1] = "ok" => (x[2][1] = "null" \/ NoNullArr(x[2])))
  /\ (e[1] = "Projection" /\ e[3] = Identity =>
        \A l \in Outcomes(e[2], d) : l[1] = "ok" =>
            (IF l[2][1] = "arr" THEN Ok(Arr(DropNull(l[2][2]))) \in o ELSE Ok(Null) \in o))
  /\ (e[1] = "ValueProjection" =>
        \A l \in Outcomes(e[2], d) : (l[1] = "ok" /\ Det(Outcomes(e[2], d))) =>
            IF l[2][1] # "obj" THEN o = OkS(Null)
            ELSE \A x \in o : x[1] = "ok" =>
                   /\ Len(x[2][2]) <= Cardinality(l[2][2])
                   /\ (e[3] = Identity => SeqBag(x[2][2]) = SeqBag(DropNull([i \in 1..Cardinality(l[2][2]) |-> SeqOfSet(l[2][2])[i][2]]))))
  /\ (e[1] = "FilterProjection" /\ Det(Outcomes(e[2], d)) =>
        \A l \in Outcomes(e[2], d) : l[1] = "ok" =>
            IF l[2][1] # "arr" THEN o = OkS(Null) ELSE \A x \in o : x[1] = "ok" => Len(x[2][2]) <= Len(l[2][2]))
  /\ (e[1] = "Flatten" => \A l \in Outcomes(e[2], d) : l[1] = "ok" =>
            IF l[2][1] # "arr" THEN Ok(Null) \in o
            ELSE IF \A i \in 1..Len(l[2][2]) : l[2][2][i][1] # "arr" THEN Ok(l[2]) \in o ELSE TRUE)

(* C07 *)
OpThm(e, d) ==
  LET o == Outcomes(e, d) k == e[1] IN
  /\ WellFormed(o)
  /\ (k = "OrExpression" => \A l \in Outcomes(e[2], d) :
         IF l[1] # "ok" THEN l \in o ELSE IF IsFalse(l[2]) THEN Outcomes(e[3], d) \subseteq o ELSE l \in o)
  /\ (k = "OrExpression" /\ Det(Outcomes(e[2], d)) /\ Det(Outcomes(e[3], d)) => o \subseteq Outcomes(e[2], d) \cup Outcomes(e[3], d))
  /\ (k = "AndExpression" => \A l \in Outcomes(e[2], d) :
         IF l[1] # "ok" THEN l \in o ELSE IF IsFalse(l[2]) THEN l \in o ELSE Outcomes(e[3], d) \subseteq o)
  /\ (k = "AndExpression" /\ Det(Outcomes(e[2], d)) /\ Det(Outcomes(e[3], d)) => o \subseteq Outcomes(e[2], d) \cup Outcomes(e[3], d))
  /\ (k = "NotExpression" => \A x \in o : x[1] = "ok" => x[2][1] = "bool")
  /\ (k = "NotExpression" /\ e[2][1] = "NotExpression" => \A l \in Outcomes(e[2][2], d) : l[1] = "ok" => Ok(Bool(~IsFalse(l[2]))) \in o)
  /\ (k = "Comparator" => \A l \in Outcomes(e[3], d), r \in Outcomes(e[4], d) : (l[1] = "ok" /\ r[1] = "ok") =>
         LET res(op) == Outcomes(Cmp(op, Lit(l[2]), Lit(r[2])), Null)
             t(op) == res(op) = OkS(Bool(TRUE)) IN
         /\ (~HasOpaque(l[2]) /\ ~HasOpaque(r[2]) => /\ res("eq") \in {OkS(Bool(TRUE)), OkS(Bool(FALSE))}
                                                     /\ t("eq") = ~t("ne")
                                                     /\ (l[2][1] # r[2][1] => ~t("eq"))
                                                     /\ (t("eq") = (l[2] = r[2])))
         /\ (IF l[2][1] = "num" /\ r[2][1] = "num"
             THEN /\ Cardinality({op \in {"lt", "eq", "gt"} : t(op)}) = 1
                  /\ t("lte") = (t("lt") \/ t("eq")) /\ t("gte") = (t("gt") \/ t("eq"))
             ELSE \A op \in {"lt", "lte", "gt", "gte"} : res(op) = OkS(Null)))

(* C09 / C10 *)
IsSortedBy(ks) == \A i \in 1..(Len(ks) - 1) : ~KeyLess(ks[i + 1], ks[i])
OkOf(o) == {x \in o : x[1] = "ok"}
FnThm(e, d) ==
  LET o == Outcomes(e, d) IN
  /\ WellFormed(o)
  /\ (e[1] = "FunctionExpression" =>
       LET name == FnOf(e[2]) IN
       \A args \in OkVals(EvEach(e[3], d)) :
         /\ (~ArgsOK(name, args) => o = ErrS)                                     \* C10
         /\ (ArgsOK(name, args) /\ name \notin ByExpr /\ name # "contains" /\ Det(EvEach(e[3], d)) => ERR \notin o)
         /\ (ArgsOK(name, args) /\ ~Opaque(args) /\ Det(EvEach(e[3], d)) =>
              LET a == args[1] IN
              CASE name = "sort" -> \A x \in OkOf(o) : /\ IsSortedBy(x[2][2]) /\ SeqBag(x[2][2]) = SeqBag(a[2])
                [] name = "reverse" -> \A x \in OkOf(o) : Outcomes(C1("reverse", Lit(x[2])), Null) = OkS(a)
                [] name \in {"max", "min"} -> \A x \in OkOf(o) : IF a[2] = <<>> THEN x[2] = Null
                                                ELSE /\ \E i \in 1..Len(a[2]) : a[2][i] = x[2]
                                                     /\ \A i \in 1..Len(a[2]) : IF name = "max" THEN ~KeyLess(x[2], a[2][i]) ELSE ~KeyLess(a[2][i], x[2])
                [] name = "merge" -> \A x \in OkOf(o) : /\ Keys(x[2]) = UNION {Keys(args[i]) : i \in 1..Len(args)}
                                                   /\ \A kk \in Keys(x[2]) : Lookup(x[2], kk) = Lookup(args[MaxS({i \in 1..Len(args) : kk \in Keys(args[i])})], kk)
                [] name = "keys" -> \A x \in OkOf(o) : Len(x[2][2]) = Cardinality(a[2]) /\ {x[2][2][i][2] : i \in 1..Len(x[2][2])} = Keys(a)
                [] name = "values" -> \A x \in OkOf(o) : SeqBag(x[2][2]) = SeqBag([i \in 1..Cardinality(a[2]) |-> SeqOfSet(a[2])[i][2]])
                [] name = "sum" -> a[2] # <<>> => \A x \in OkOf(o), y \in Outcomes(C1("avg", Lit(a)), Null) : x[2][2] * y[2][3] = y[2][2] * Len(a[2]) * x[2][3]
                [] name = "avg" -> a[2] = <<>> => o = OkS(Null)
                [] name \in {"abs", "ceil", "floor"} /\ IsBig(a) -> o = OkS(a)
                [] name \in {"sum", "avg"} /\ HasBig(a[2]) -> TRUE
                [] name = "abs" -> \A x \in OkOf(o) : x[2][2] >= 0 /\ (x[2] = a \/ x[2] = Num(-a[2], a[3]))
                [] name \in {"ceil", "floor"} -> \A x \in OkOf(o) : /\ x[2][3] = 1
                                                   /\ (IF name = "floor" THEN x[2][2] * a[3] <= a[2] /\ a[2] < (x[2][2] + 1) * a[3]
                                                                        ELSE (x[2][2] - 1) * a[3] < a[2] /\ a[2] <= x[2][2] * a[3])
                [] name = "starts_with" -> o = OkS(Bool(Len(args[2][2]) <= Len(a[2]) /\ SubSeq(a[2], 1, Len(args[2][2])) = args[2][2]))
                [] name = "ends_with" -> o = OkS(Bool(Len(args[2][2]) <= Len(a[2]) /\ SubSeq(a[2], Len(a[2]) - Len(args[2][2]) + 1, Len(a[2])) = args[2][2]))
                [] name = "contains" /\ a[1] = "str" /\ args[2][1] = "str" ->
                     o = OkS(Bool(\E i \in 1..(Len(a[2]) + 1) : i + Len(args[2][2]) - 1 <= Len(a[2]) /\ SubSeq(a[2], i, i + Len(args[2][2]) - 1) = args[2][2]))
                [] name = "join" -> \A x \in OkOf(o) : Len(x[2][2]) = SumR([i \in 1..Len(args[2][2]) |-> I(Len(args[2][2][i][2]))])[2]
                                                                 + Len(a[2]) * (IF Len(args[2][2]) = 0 THEN 0 ELSE Len(args[2][2]) - 1)
                [] name = "length" -> \A x \in OkOf(o) : x[2][1] = "num" /\ x[2][2] >= 0
                [] name = "type" -> \A x \in OkOf(o) : x[2][1] = "str"
                [] name = "to_array" -> \A x \in OkOf(o) : x[2][1] = "arr" /\ Outcomes(C1("to_array", Lit(x[2])), Null) = {x}
                [] name = "not_null" -> \A x \in OkOf(o) : (x[2] = Null) = (\A i \in 1..Len(args) : args[i] = Null)
                [] name = "map" -> \A x \in OkOf(o) : x[1] = "ok" => Len(x[2][2]) = Len(args[2][2])
                [] name = "sort_by" ->
                     \A ksO \in MapOut(args[2][2], a[2]) :
                       IF ksO[1] = "ok" /\ KeysOpaque(ksO[2]) THEN TRUE
                       ELSE IF ksO[1] # "ok" \/ ~KeysUniform(ksO[2]) THEN ERR \in o
                       ELSE \A x \in OkOf(o) : x[1] = "ok" =>
                              /\ SeqBag(x[2][2]) = SeqBag(a[2])
                              /\ \A ks2 \in OkVals(MapOut(args[2][2], x[2][2])) : IsSortedBy(ks2)
                [] name \in {"max_by", "min_by"} ->
                     \A ksO \in MapOut(args[2][2], a[2]) :
                       IF ksO[1] = "ok" /\ KeysOpaque(ksO[2]) THEN TRUE
                       ELSE IF ksO[1] # "ok" \/ ~KeysUniform(ksO[2]) THEN ERR \in o
                       ELSE IF a[2] = <<>> THEN o = OkS(Null)
                       ELSE \A x \in OkOf(o) : x[1] = "ok" =>
                              \E i \in 1..Len(a[2]) :
                                 /\ a[2][i] = x[2]
                                 /\ \A j \in 1..Len(a[2]) : IF name = "max_by" THEN ~KeyLess(ksO[2][i], ksO[2][j]) ELSE ~KeyLess(ksO[2][j], ksO[2][i])
                                 /\ \A j \in 1..(i - 1) : IF name = "max_by" THEN KeyLess(ksO[2][j], ksO[2][i]) ELSE KeyLess(ksO[2][i], ksO[2][j])
                [] OTHER -> TRUE))

AlwaysErr == {ErrAbs, ErrUnknown, ErrArity}
ErrThm(c, x, d) ==
  LET o == Outcomes(Plug(c, x), d) IN
  /\ WellFormed(o)
  /\ (x \in AlwaysErr =>
        IF Reached(c, d) THEN ERR \in o /\ (Det(Outcomes(Plug(c, Lit(Null)), d)) => o = ErrS)
        ELSE o = Outcomes(Plug(c, Lit(Null)), d))

(* C08: on arrays the slice selects exactly the positions of the declarative definition, which are in range,
   evenly spaced, agree with the code's formulation and are invariant under saturation; step 0 is an error on
   arrays only; a non-array yields null; a huge index selects nothing *)
SliceThm(e, d) ==
  LET o == Outcomes(e, d) IN
  /\ WellFormed(o)
  /\ (e[1] = "Projection" /\ e[2][1] = "IndexExpression" /\ e[2][3][1] = "Slice" =>
        LET parts == e[2][3][2] IN
        \A l \in OkVals(Outcomes(e[2][2], d)) :
          IF l[1] # "arr" THEN o = OkS(Null)
          ELSE LET n == Len(l[2]) IN
               IF HasP(parts[3]) /\ PV(parts[3], n) = 0 THEN o = ErrS
               ELSE /\ InRange(n, parts) /\ Monotone(n, parts) /\ CodeAgrees(n, parts) /\ Saturation(n, parts)
                    /\ (e[3] = Identity => o = OkS(Arr(DropNull([k \in 1..Len(SlicePositions(n, parts)) |-> l[2][SlicePositions(n, parts)[k] + 1]])))))
  /\ (e[1] = "IndexExpression" /\ e[3][1] = "Index" /\ Len(e[3]) = 3 => o = OkS(Null))

(* C03: the declarative precedence relation (Unparse) and the Pratt machine (Parser) agree: the minimal and
   the fully parenthesised spelling of every tree are sentences of the grammar and parse back to a tree
   with the same meaning (structurally identical, or with equal outcomes on every document of the family --
   some groupings are interchangeable: a.b[0] is a.(b[0]); (a.b)[0] is another tree with the same meaning) *)
RoundTrip(e, toks, docs) ==
  IsBad(toks) \/ (/\ Grammatical(toks)
                  /\ LET r == ParseToks(toks) IN
                     r[1] = "ok" /\ (r[2] = e \/ \A d \in 1..Len(docs) : Outcomes(r[2], docs[d]) = Outcomes(e, docs[d])))
PrecThm(e, docs) == RoundTrip(e, UnparseMin(e), docs) /\ RoundTrip(e, UnparseFull(e), docs) /\ RoundTrip(e, UnparseSt(e, StQuoted), docs)

(* C15: referential transparency: a sub-expression evaluated against the root document can be replaced by a
   literal of its value (when that value is deterministic JSON); the pipe law is the Pipe clause of Outcomes *)
SubstThm(c, x, d) ==
  LET o == Outcomes(x, d) IN
  (Det(o) /\ \A y \in o : y[1] = "ok" /\ IsJSON(y[2]) /\ ~HasOpaque(y[2])) =>
      Outcomes(Plug(c, x), d) = Outcomes(Plug(c, Lit(TheOk(o))), d)
PipeLaw(a, b, d) == Outcomes(Pipe(a, b), d) = Bind(Outcomes(a, d), LAMBDA v : Outcomes(b, v))

Thm(e, d) == CASE Family = "C01" -> CoreThm(e, d)
               [] Family \in {"C08", "C08i"} -> SliceThm(e, d)
               [] Family = "C02" -> ProjThm(e, d)
               [] Family \in {"C07", "C07d"} -> OpThm(e, d)
               [] Family \in {"C09", "C09n", "C10", "C10d", "C10k", "C09big"} -> FnThm(e, d)
               [] Family \in {"C16", "C06", "C18", "C18p"} -> WellFormed(Outcomes(e, d))

Holds == idx >= 0 =>
           IF Family = "C11" THEN LET c == CtxAt(g, idx) x == BaseAt(g, idx) IN \A d \in 1..Len(g.docs) : ErrThm(c, x, g.docs[d])
           ELSE IF Family = "C15" THEN LET c == CtxAt(g, idx) x == BaseAt(g, idx) IN
                  \A d \in 1..Len(g.docs) : SubstThm(c, x, g.docs[d]) /\ PipeLaw(x, g.l1[(idx % g.n1) + 1], g.docs[d])
           ELSE IF Family = "C03" THEN PrecThm(ExprAt(g, idx), g.docs)
           ELSE LET e == ExprAt(g, idx) IN \A d \in 1..Len(g.docs) : Thm(e, g.docs[d])
=============================================================================
