----------------------------- MODULE EvalTrace -----------------------------
(* The relational semantics instrumented with the Execute-entry sequence: OutT(ast, value) is the set of
   <<outcome, trail>> pairs, where trail lists the kinds of the nodes entered, in order -- what the
   implementation's verifEnter hook logs during one Search.  It fixes the *evaluation order and extent* that
   Outcomes leaves implicit: operands left to right, the right side of || / && only when needed (C07), a
   projection's right-hand side once per element in document order, a filter's condition once per element and
   its right-hand side only for kept elements, nothing after an error.  Inside the four by-expression built-ins
   the number of evaluations of the expression reference is not fixed by JMESPath (once per element is
   specified; an implementation that re-evaluates keys inside its comparison function is observationally
   equal): the trail then ends with the marker "*" and is not compared further.

   MC_Interp checks that the interpreter machine produces exactly these pairs; Trace_Api compares the recorded
   entry sequence of real Search calls with the trails (reported as drift, never as a violation). *)
EXTENDS Eval

BindT(SS, F(_)) == UNION {IF p[1][1] = "ok" THEN {<<q[1], p[2] \o q[2]>> : q \in F(p[1][2])} ELSE {<<Up(p[1]), p[2]>>} : p \in SS}
UnitT(o) == {<<o, <<>>>>}
OfSet(SS) == {<<o, <<>>>> : o \in SS}
Pre(k, SS) == {<<p[1], <<k>> \o p[2]>> : p \in SS}

RECURSIVE OutT(_, _), EachT(_, _), MapT(_, _), FilterT(_, _, _)
EachT(es, v) == IF es = <<>> THEN UnitT(Ok(<<>>))
                ELSE BindT(OutT(Head(es), v), LAMBDA h : BindT(EachT(Tail(es), v), LAMBDA t : UnitT(Ok(<<h>> \o t))))
MapT(r, xs) == IF xs = <<>> THEN UnitT(Ok(<<>>))
               ELSE BindT(OutT(r, Head(xs)), LAMBDA h : BindT(MapT(r, Tail(xs)), LAMBDA t : UnitT(Ok(<<h>> \o t))))
FilterT(cond, r, xs) ==
  IF xs = <<>> THEN UnitT(Ok(<<>>))
  ELSE BindT(OutT(cond, Head(xs)), LAMBDA c :
         IF IsFalse(c) THEN FilterT(cond, r, Tail(xs))
         ELSE BindT(OutT(r, Head(xs)), LAMBDA h : BindT(FilterT(cond, r, Tail(xs)), LAMBDA t : UnitT(Ok(<<h>> \o t)))))

OutT(e, v) ==
  LET k == e[1] IN
  Pre(k,
  CASE k \in {"Field", "Index", "Identity", "CurrentNode", "Literal", "ExpRef", "Slice"} -> OfSet(Outcomes(e, v))
    [] k = "Comparator" -> BindT(OutT(e[3], v), LAMBDA l : BindT(OutT(e[4], v), LAMBDA r : OfSet(Compare(e[2], l, r))))
    [] k = "FunctionExpression" ->
         BindT(EachT(e[3], v), LAMBDA args :
            IF FnOf(e[2]) \in ByExpr /\ ArgsOK(FnOf(e[2]), args) THEN {<<o, <<"*">>>> : o \in CallFn(FnOf(e[2]), args)}
            ELSE OfSet(CallFn(FnOf(e[2]), args)))
    [] k = "FilterProjection" -> BindT(OutT(e[2], v), LAMBDA l :
                             IF l[1] = "arr" THEN BindT(FilterT(e[4], e[3], l[2]), LAMBDA rs : UnitT(Ok(Arr(DropNull(rs)))))
                             ELSE UnitT(Ok(Null)))
    [] k = "Flatten" -> BindT(OutT(e[2], v), LAMBDA l : UnitT(Ok(IF l[1] = "arr" THEN Arr(FlattenOnce(l[2])) ELSE Null)))
    [] k = "KeyValPair" -> OutT(e[3], v)
    [] k = "MultiSelectHash" -> IF v[1] = "null" THEN UnitT(Ok(Null))
                                ELSE BindT(EachT(e[2], v), LAMBDA xs :
                                       UnitT(Ok(Obj(LastWins([i \in 1..Len(e[2]) |-> e[2][i][2]], xs)))))
    [] k = "MultiSelectList" -> IF v[1] = "null" THEN UnitT(Ok(Null)) ELSE BindT(EachT(e[2], v), LAMBDA xs : UnitT(Ok(Arr(xs))))
    [] k = "OrExpression" -> BindT(OutT(e[2], v), LAMBDA l : IF IsFalse(l) THEN OutT(e[3], v) ELSE UnitT(Ok(l)))
    [] k = "AndExpression" -> BindT(OutT(e[2], v), LAMBDA l : IF IsFalse(l) THEN UnitT(Ok(l)) ELSE OutT(e[3], v))
    [] k = "NotExpression" -> BindT(OutT(e[2], v), LAMBDA l : UnitT(Ok(Bool(IsFalse(l)))))
    [] k \in {"Subexpression", "IndexExpression", "Pipe"} -> BindT(OutT(e[2], v), LAMBDA l : OutT(e[3], l))
    [] k = "Projection" -> BindT(OutT(e[2], v), LAMBDA l :
                             IF l[1] = "arr" THEN BindT(MapT(e[3], l[2]), LAMBDA rs : UnitT(Ok(Arr(DropNull(rs))))) ELSE UnitT(Ok(Null)))
    [] k = "ValueProjection" -> BindT(OutT(e[2], v), LAMBDA l :
                             IF l[1] = "obj"
                             THEN UNION {BindT(MapT(e[3], [i \in 1..Len(p) |-> p[i][2]]), LAMBDA rs : UnitT(Ok(Arr(DropNull(rs))))) : p \in Perms(l[2])}
                             ELSE UnitT(Ok(Null))))

(* the multi-select hash enters a KeyValPair node per member before the member's expression *)
TrailsOf(e, v) == {p[2] : p \in OutT(e, v)}
Open(t) == \E i \in 1..Len(t) : t[i] = "*"
(* a recorded entry sequence is explained if it equals a trail, or extends the closed prefix of an open one *)
Explained(seq, e, v) ==
  \E t \in TrailsOf(e, v) :
     IF Open(t) THEN LET n == (CHOOSE i \in 1..Len(t) : t[i] = "*" /\ \A j \in 1..(i - 1) : t[j] # "*") - 1 IN
                     Len(seq) >= n /\ SubSeq(seq, 1, n) = SubSeq(t, 1, n)
     ELSE seq = t
(* projection to outcomes gives back the plain semantics *)
ProjectsToOutcomes(e, v) == {p[1] : p \in OutT(e, v)} = Outcomes(e, v)
=============================================================================
