------------------------------ MODULE Gen_Cli ------------------------------
(* Concrete runs of jpgo for replay (C19): expression texts (valid ones spelled from evaluator-family ASTs,
   ungrammatical and unlexable ones), input texts (the JSON text of documents; invalid and empty inputs), both
   input channels and a missing file; with the expected verdict: exit 0 and the JSON of a value in the
   specification's outcome set, or a non-zero exit status and nothing on standard output. *)
EXTENDS Families, Text, Json

CONSTANTS Shard, NShards, OutFile, Seed, Stride, Stride3

BadExprs == << <<97, 46>>, <<91, 48>>, <<34, 97>>, <<97, 32, 98>>, <<>>, <<35>>, <<97, 40>>, <<96, 120, 96>>, <<97, 91, 63, 93>>, <<-255>>, <<97, 124, 124>> >>
BadInputs == << <<>>, <<123>>, <<110, 117, 108>>, <<91, 49, 44, 93>>, <<39, 97, 39>>, <<123, 34, 97, 34, 58, 125>>, <<49, 32, 50>> >>
DocsCli == <<O2(cA, S(<<49, 48, 48, 37>>), <<37, 100>>, A2(S(<<37, 115>>), S(<<60, 38, 62>>))),
             O2(cA, O2(cA, I(1), cB, A2(I(1), I(2))), cB, A3(O1(cA, I(1)), I(2), A1(I(3)))), A3(I(3), I(1), I(2)), Null, O1(cA, A0), S(cEacute), Half,
             O2(cA, A2(O1(cA, I(2)), O1(cA, I(1))), cB, A2(S(cB), S(cA)))>>
Channels == <<"file", "stdin">>
GoodCase(g, i) ==
  LET e == ExprAt(g, i) toks == UnparseMin(e) IN
  IF IsBad(toks) THEN <<>>
  ELSE [d \in 1..Len(DocsCli) |->
          LET o == Outcomes(e, DocsCli[d]) IN
          [k |-> "cli", id |-> i * 16 + d, expr |-> Render(toks, IF d % 2 = 0 THEN "tight" ELSE "mixed"), input |-> JsonTextCps(DocsCli[d]),
           chan |-> Channels[((i + d) % 2) + 1], allowed |-> o,
           expect |-> IF \A x \in o : x[1] = "ok" THEN "ok" ELSE IF \A x \in o : x[1] = "err" THEN "fail" ELSE "any"]]
RECURSIVE FlatCat(_, _)
FlatCat(xs, j) == IF j > Len(xs) THEN <<>> ELSE xs[j] \o FlatCat(xs, j + 1)
BadCases ==
  [i \in 1..Len(BadExprs) |-> [k |-> "cli", id |-> -i, expr |-> BadExprs[i], input |-> JsonTextCps(DocsCli[1]), chan |-> Channels[(i % 2) + 1],
                               allowed |-> {}, expect |-> IF CompileModel(BadExprs[i])[1] = "err" THEN "fail" ELSE "any"]]
  \o [i \in 1..Len(BadInputs) |-> [k |-> "cli", id |-> -100 - i, expr |-> <<97>>, input |-> BadInputs[i], chan |-> Channels[(i % 2) + 1], allowed |-> {}, expect |-> "fail"]]
  \o <<[k |-> "cli", id |-> -200, expr |-> <<97>>, input |-> <<>>, chan |-> "missing", allowed |-> {}, expect |-> "fail"],
       [k |-> "cli", id |-> -201, expr |-> <<97, 46>>, input |-> <<>>, chan |-> "missing", allowed |-> {}, expect |-> "fail"],
       [k |-> "cli", id |-> -202, expr |-> <<97>>, input |-> JsonTextCps(DocsCli[1]), chan |-> "noargs", allowed |-> {}, expect |-> "fail"],
       [k |-> "cli", id |-> -203, expr |-> <<97>>, input |-> JsonTextCps(DocsCli[1]), chan |-> "twoargs", allowed |-> {}, expect |-> "fail"]>>
ASSUME LET g == Ctx
           mine == MineSeq(g, Shard, NShards, Stride, Stride3, Seed)
           out == (IF Shard = 0 THEN BadCases ELSE <<>>) \o FlatCat([m \in 1..Len(mine) |-> GoodCase(g, mine[m])], 1)
       IN PrintT(<<"GEN", "cli", Len(out)>>) /\ ndJsonSerialize(OutFile, out)
VARIABLE x
Init == x = 0
Next == x' = x
=============================================================================
