module verif/harness

go 1.21

require github.com/jmespath/go-jmespath v0.0.0

replace github.com/jmespath/go-jmespath => /repo
