----------------------------- MODULE MC_Parse -----------------------------
(* C04 / C05 / C17 on the specification: the Pratt machine accepts exactly the sentences of the
   grammar.  Every token string over Alpha up to length MaxLen is a state (a string is extended by
   one token per step, so TLC's workers share the exploration), and in every state

     Agree:    Parse accepts  <=>  the chart recogniser derives E     (with the deviation D1 the
               grammar side is GrammaticalD1 and the Pratt side has no switch: D1 is how the
               implementation AND the corrected machine behave, see Grammar.tla)
     NoPanic:  the parser never reaches its panic status and never reads past eof (an out-of-range
               token access is a TLC evaluation error)
     ErrIdx:   a reported error names a token inside the input (offset in range, C17)             *)
EXTENDS Parser

CONSTANTS MaxLen, UseD1, Deep
(* Deep: longer strings over the few tokens that nest (what only shows behind a parenthesised operand) *)
AlphaDeep == {T("lparen"), T("rparen"), <<"uid", <<97>>>>, <<"qid", <<98>>>>, T("comma"), T("current")}
AlphaAll == {T("star"), T("dot"), T("filter"), T("flatten"), T("lparen"), T("rparen"), T("lbracket"), T("rbracket"),
          T("lbrace"), T("rbrace"), T("or"), T("pipe"), <<"number", 0>>, <<"uid", <<97>>>>, <<"qid", <<98>>>>, T("comma"),
          T("colon"), T("lt"), <<"jsonlit", IntV(1)>>, T("current"), T("expref"), T("and"), T("not"), T("unknown")}
Alpha == IF Deep THEN AlphaDeep ELSE AlphaAll
VARIABLE s
Init == s = <<>>
Next == Len(s) < MaxLen /\ \E a \in Alpha : s' = Append(s, a)
Spec == Init /\ [][Next]_s

Agree == LET r == ParseToks(s) IN (r[1] = "ok") <=> (IF UseD1 THEN GrammaticalD1(s) ELSE Grammatical(s))
NoPanic == ParseToks(s)[1] \in {"ok", "err"}
ErrIdx == LET r == ParseToks(s) IN r[1] = "err" => r[2] \in 1..(Len(s) + 1)
=============================================================================
