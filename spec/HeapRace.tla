------------------------------ MODULE HeapRace ------------------------------
(* Why C06 / C12 are state-machine properties: one shared array cell (the caller's document), a goroutine
   running sort_by(@, &@) as the insertion sort that sort.Stable performs on short slices, at the
   granularity of its Less / Swap calls, and a goroutine running [@[0], @[N-1]] reading one element per step.
   InPlace = TRUE is the code as it was (sort.Stable on the argument slice); FALSE is the specified
   behaviour (the handler allocates a private copy first).

   Checked (MC_HeapRace): with InPlace = FALSE, for every interleaving: the document is never written
   (action property ReadOnly, invariant DocIntact), the reader returns what it returns alone (ReaderSolo)
   and the sorter's result is sorted (SortedOK).  With InPlace = TRUE TLC finds the interleavings in which
   the reader observes a half-sorted array -- the negative control and the reproduction recipe. *)
EXTENDS Integers, Sequences, TLC
CONSTANTS InPlace, Doc0

N == Len(Doc0)
VARIABLES doc, priv, i, j, spc, rpc, rd
vars == <<doc, priv, i, j, spc, rpc, rd>>

Arr == IF InPlace THEN doc ELSE priv
Init == doc = Doc0 /\ priv = <<>> /\ i = 2 /\ j = 2 /\ spc = "start" /\ rpc = 0 /\ rd = <<>>

SortStart == /\ spc = "start"
             /\ priv' = IF InPlace THEN priv ELSE doc
             /\ spc' = IF N < 2 THEN "done" ELSE "cmp"
             /\ UNCHANGED <<doc, i, j, rpc, rd>>

SortStep == /\ spc = "cmp"
            /\ IF j > 1 /\ Arr[j] < Arr[j - 1]
               THEN /\ (IF InPlace THEN doc' = [doc EXCEPT ![j] = doc[j - 1], ![j - 1] = doc[j]] /\ priv' = priv
                                   ELSE priv' = [priv EXCEPT ![j] = priv[j - 1], ![j - 1] = priv[j]] /\ doc' = doc)
                    /\ j' = j - 1 /\ i' = i /\ spc' = spc
               ELSE /\ UNCHANGED <<doc, priv>>
                    /\ IF i = N THEN spc' = "done" /\ i' = i /\ j' = j
                                ELSE i' = i + 1 /\ j' = i + 1 /\ spc' = spc
            /\ UNCHANGED <<rpc, rd>>

ReadStep == /\ rpc < 2
            /\ rd' = Append(rd, doc[IF rpc = 0 THEN 1 ELSE N])
            /\ rpc' = rpc + 1
            /\ UNCHANGED <<doc, priv, i, j, spc>>

Next == SortStart \/ SortStep \/ ReadStep
Spec == Init /\ [][Next]_vars

ReadOnly == [][doc' = doc]_vars
DocIntact == doc = Doc0
ReaderSolo == rpc = 2 => rd = <<Doc0[1], Doc0[N]>>
SortedOK == spc = "done" => \A k \in 1..(N - 1) : Arr[k] <= Arr[k + 1]
=============================================================================
