------------------------------- MODULE Lexer -------------------------------
(* lexer.go as a specification, at code-point level (C04, C05, C14, C17).

   A source text is a sequence of integers: c >= 0 is the Unicode code point c (UTF-8 encoded by the
   harness), c < 0 is the raw byte -c, used to build invalid UTF-8 (only bytes that can never be part
   of a valid sequence: 0x80, 0xC0, 0xFF).  The lexer sees *runes with byte widths* <<cp, width>>:
   an invalid byte decodes to <<65533, 1>>, the genuine U+FFFD to <<65533, 3>> (a third component keeps
   the original element, because token values are substrings of the source: an invalid byte stays itself
   in a raw string, and becomes U+FFFD only where encoding/json decodes the text).

   LexFrom mirrors the if-chain of tokenize() branch by branch; the sub-scanners (consumeUntil,
   consumeRawStringLiteral with its chunk buffer, matchOrElse, consumeLBracket, identifier and number
   scanners) are separate operators.  k is the number of runes consumed; byte offsets are Off(src, k).

   Result:  <<"ok", tokens>>   tokens are <<type, value(code points), position, length>>, last is eof
            <<"syntax", offset>>      a SyntaxError with that byte offset
            <<"othererr">>            a non-syntax error (invalid JSON escape in a quoted identifier)
            <<"unmodelled">>          \u escapes of surrogates (encoding/json behaviour is trusted)
            <<"panic">>               only with Dev "UnguardedIdentTable" (the code as it was)          *)
EXTENDS Unparse

Utf8Len(c) == IF c < 128 THEN 1 ELSE IF c < 2048 THEN 2 ELSE IF c < 65536 THEN 3 ELSE 4
DecodeSrc(text) == [i \in 1..Len(text) |-> IF text[i] < 0 THEN <<65533, 1, text[i]>> ELSE <<text[i], Utf8Len(text[i]), text[i]>>]
RECURSIVE ByteLen(_)
ByteLen(cs) == IF cs = <<>> THEN 0 ELSE Utf8Len(cs[1]) + ByteLen(Tail(cs))

RECURSIVE Off(_, _)
Off(src, k) == IF k = 0 THEN 0 ELSE Off(src, k - 1) + src[k][2]
NRunes(src) == Len(src)
CP(src, k) == src[k][1]
(* the substring of runes a..b as it is copied into a token value: an invalid byte stays that byte *)
CpsOf(src, a, b) == [i \in 1..(b - a + 1) |-> src[a + i - 1][3]]
(* byte length of runes a..b of the source (token values are substrings: invalid bytes keep width 1) *)
RECURSIVE SrcBytes(_, _, _)
SrcBytes(src, a, b) == IF a > b THEN 0 ELSE src[a][2] + SrcBytes(src, a + 1, b)

IsWS(c) == c \in {32, 9, 10, 13}
Basic(c) == CASE c = 46 -> "dot" [] c = 42 -> "star" [] c = 44 -> "comma" [] c = 58 -> "colon" [] c = 123 -> "lbrace"
              [] c = 125 -> "rbrace" [] c = 93 -> "rbracket" [] c = 40 -> "lparen" [] c = 41 -> "rparen" [] c = 64 -> "current"
              [] OTHER -> "none"

LTok(t, v, p, l) == <<t, v, p, l>>
SynErr(off) == <<"syntax", off>>

(* consumeUntil(end), k runes consumed (just after the opening delimiter): a backslash skips the
   next rune unless it is the last one.  <<"closed", kAfterDelimiter>> or <<"unclosed">> *)
RECURSIVE Until(_, _, _)
Until(src, k, end) ==
  IF k >= NRunes(src) THEN <<"unclosed">>
  ELSE LET c == CP(src, k + 1) IN
       IF c = end THEN <<"closed", k + 1>>
       ELSE IF c = 92 /\ k + 1 < NRunes(src) THEN Until(src, k + 2, end)
       ELSE Until(src, k + 1, end)

HexVal(c) == IF IsDigit(c) THEN c - 48 ELSE IF c \in 65..70 THEN c - 55 ELSE IF c \in 97..102 THEN c - 87 ELSE -1
(* body of a JSON string -> code points; <<"bad">> if not valid JSON; surrogate escapes unmodelled *)
RECURSIVE JsonUnescape(_)
JsonUnescape(s) ==
  IF s = <<>> THEN <<"ok", <<>>>>
  ELSE LET c == IF s[1] < 0 THEN 65533 ELSE s[1] IN      \* encoding/json replaces invalid UTF-8 by U+FFFD
    IF c < 32 THEN <<"bad">>
    ELSE IF c # 92 THEN (LET r == JsonUnescape(Tail(s)) IN IF r[1] = "ok" THEN <<"ok", <<c>> \o r[2]>> ELSE r)
    ELSE IF Len(s) < 2 THEN <<"bad">>
    ELSE LET d == s[2]
             simple == CASE d = 34 -> 34 [] d = 92 -> 92 [] d = 47 -> 47 [] d = 98 -> 8 [] d = 102 -> 12
                         [] d = 110 -> 10 [] d = 114 -> 13 [] d = 116 -> 9 [] OTHER -> -1
         IN IF simple >= 0 THEN (LET r == JsonUnescape(SubSeq(s, 3, Len(s))) IN IF r[1] = "ok" THEN <<"ok", <<simple>> \o r[2]>> ELSE r)
            ELSE IF d = 117 /\ Len(s) >= 6 /\ \A i \in 3..6 : HexVal(s[i]) >= 0
                 THEN LET u == HexVal(s[3]) * 4096 + HexVal(s[4]) * 256 + HexVal(s[5]) * 16 + HexVal(s[6]) IN
                      IF u \in 55296..57343 THEN <<"unmodelled">>
                      ELSE (LET r == JsonUnescape(SubSeq(s, 7, Len(s))) IN IF r[1] = "ok" THEN <<"ok", <<u>> \o r[2]>> ELSE r)
            ELSE <<"bad">>

(* consumeRawStringLiteral: k runes consumed, cur = last rune read (-1 = eof), lw = lastWidth,
   ci = rune index where the current chunk starts, buf = the bytes.Buffer *)
RECURSIVE RawLoop(_, _, _, _, _, _)
RawLoop(src, k, cur, lw, ci, buf) ==
  LET peekEof == k >= NRunes(src) IN
  IF cur # 39 /\ ~peekEof
  THEN IF cur = 92 /\ CP(src, k + 1) = 39
       THEN LET buf2 == buf \o CpsOf(src, ci + 1, k - 1) \o <<39>>
                k2 == k + 1 IN
            IF k2 >= NRunes(src) THEN RawLoop(src, k2, -1, 0, k2, buf2)
            ELSE RawLoop(src, k2 + 1, CP(src, k2 + 1), src[k2 + 1][2], k2, buf2)
       ELSE RawLoop(src, k + 1, CP(src, k + 1), src[k + 1][2], ci, buf)
  ELSE LET lw2 == IF cur # 39 THEN 0 ELSE lw IN    \* leaving through peek() = eof sets lastWidth to 0
       IF lw2 = 0 THEN <<"unclosed">>
       ELSE <<"closed", k, IF ci < k THEN buf \o CpsOf(src, ci + 1, k - 1) ELSE buf>>

(* strings.Replace(value, "\\`", "`", -1) *)
RECURSIVE UnescapeBacktick(_)
UnescapeBacktick(t) == IF t = <<>> THEN <<>>
                       ELSE IF Len(t) >= 2 /\ t[1] = 92 /\ t[2] = 96 THEN <<96>> \o UnescapeBacktick(SubSeq(t, 3, Len(t)))
                       ELSE <<t[1]>> \o UnescapeBacktick(Tail(t))

(* matchOrElse; k runes consumed including the first character *)
Two(src, k, second, both, single) ==
  LET start == Off(src, k - 1) IN
  IF k < NRunes(src) /\ CP(src, k + 1) = second THEN <<LTok(both, <<>>, start, 2), k + 1>> ELSE <<LTok(single, <<>>, start, 1), k>>

RECURSIVE IdEnd(_, _), NumEnd(_, _), LexFrom(_, _, _)
IdEnd(src, j) == IF j < NRunes(src) /\ CP(src, j + 1) < 128 /\ IdContC(CP(src, j + 1)) THEN IdEnd(src, j + 1) ELSE j
NumEnd(src, j) == IF j < NRunes(src) /\ IsDigit(CP(src, j + 1)) THEN NumEnd(src, j + 1) ELSE j

LexFrom(src, k, toks) ==
  IF k >= NRunes(src) THEN <<"ok", Append(toks, LTok("eof", <<>>, Off(src, NRunes(src)), 0))>>
  ELSE
  LET c == CP(src, k + 1) k1 == k + 1 p == Off(src, k) IN
  IF c < 128 /\ IdStartC(c) THEN
       LET j == IdEnd(src, k1) IN
       IF "UnguardedIdentTable" \in Dev /\ j < NRunes(src) /\ CP(src, j + 1) = 128 THEN <<"panic">>
       ELSE LexFrom(src, j, Append(toks, LTok("uid", CpsOf(src, k1, j), p, Off(src, j) - p)))
  ELSE IF Basic(c) # "none" THEN LexFrom(src, k1, Append(toks, LTok(Basic(c), <<>>, p, 1)))
  ELSE IF c = 45 \/ IsDigit(c) THEN
       LET j == NumEnd(src, k1) IN LexFrom(src, j, Append(toks, LTok("number", CpsOf(src, k1, j), p, Off(src, j) - p)))
  ELSE IF c = 91 THEN
       IF k1 < NRunes(src) /\ CP(src, k1 + 1) = 63 THEN LexFrom(src, k1 + 1, Append(toks, LTok("filter", <<>>, p, 2)))
       ELSE IF k1 < NRunes(src) /\ CP(src, k1 + 1) = 93 THEN LexFrom(src, k1 + 1, Append(toks, LTok("flatten", <<>>, p, 2)))
       ELSE LexFrom(src, k1, Append(toks, LTok("lbracket", <<>>, p, 1)))
  ELSE IF c = 34 THEN
       LET u == Until(src, k1, 34) IN
       IF u[1] = "unclosed" THEN SynErr(Off(src, NRunes(src)))
       ELSE LET dec == JsonUnescape(CpsOf(src, k1 + 1, u[2] - 1)) IN
            IF dec[1] = "bad" THEN <<"othererr">>      \* (invalid bytes decode to U+FFFD, as encoding/json does)
            ELSE IF dec[1] = "unmodelled" THEN <<"unmodelled">>
            ELSE LexFrom(src, u[2], Append(toks, LTok("qid", dec[2], Off(src, k1) - 1, ByteLen(dec[2]))))
  ELSE IF c = 39 THEN
       LET r == IF k1 >= NRunes(src) THEN RawLoop(src, k1, -1, 0, k1, <<>>)
                ELSE RawLoop(src, k1 + 1, CP(src, k1 + 1), src[k1 + 1][2], k1, <<>>) IN
       IF r[1] = "unclosed" THEN SynErr(Off(src, NRunes(src)))
       ELSE LexFrom(src, r[2], Append(toks, LTok("strlit", r[3], Off(src, k1), ByteLen(r[3]))))
  ELSE IF c = 96 THEN
       LET u == Until(src, k1, 96) IN
       IF u[1] = "unclosed" THEN SynErr(Off(src, NRunes(src)))
       ELSE LET raw == CpsOf(src, k1 + 1, u[2] - 1)
                v == UnescapeBacktick(raw) IN
            LexFrom(src, u[2], Append(toks, LTok("jsonlit", v, Off(src, k1), ByteLen(v))))
  ELSE IF c = 124 THEN LET t == Two(src, k1, 124, "or", "pipe") IN LexFrom(src, t[2], Append(toks, t[1]))
  ELSE IF c = 60 THEN LET t == Two(src, k1, 61, "lte", "lt") IN LexFrom(src, t[2], Append(toks, t[1]))
  ELSE IF c = 62 THEN LET t == Two(src, k1, 61, "gte", "gt") IN LexFrom(src, t[2], Append(toks, t[1]))
  ELSE IF c = 33 THEN LET t == Two(src, k1, 61, "ne", "not") IN LexFrom(src, t[2], Append(toks, t[1]))
  ELSE IF c = 61 THEN LET t == Two(src, k1, 61, "eq", "unknown") IN LexFrom(src, t[2], Append(toks, t[1]))
  ELSE IF c = 38 THEN LET t == Two(src, k1, 38, "and", "expref") IN LexFrom(src, t[2], Append(toks, t[1]))
  ELSE IF IsWS(c) THEN LexFrom(src, k1, toks)
  ELSE SynErr(Off(src, k1) - 1)

(* the lexer on a source text (sequence of integers as described above) *)
Lex(text) == LexFrom(DecodeSrc(text), 0, <<>>)
SrcByteLen(text) == Off(DecodeSrc(text), Len(text))

(* token types and values only (what the parser consumes) *)
TokTV(res) == [i \in 1..Len(res[2]) |-> <<res[2][i][1], res[2][i][2]>>]
=============================================================================
