package main

// jmv sched: schedule replay for C12. Phase "count": run every call of every workload alone, record its
// outcome and its number of hook points. Phase "run": replay TLC-generated interleavings of the hook
// points on real goroutines (the hook is a blocking gate), snapshot the shared document after every
// step, and compare every goroutine's result with the outcome set the specification allows.
// jmv race: the same workloads free-running (no gates, which would create happens-before edges), to be
// built with -race.

import (
	"bufio"
	"bytes"
	"encoding/json"
	"flag"
	"fmt"
	"os"
	"reflect"
	"runtime"
	"strconv"
	"strings"
	"sync"
	"sync/atomic"

	jmespath "github.com/jmespath/go-jmespath"
)

type workload struct {
	K        string        `json:"k"`
	E1       []interface{} `json:"e1"`
	E2       []interface{} `json:"e2"`
	P        int           `json:"p"`
	Q        int           `json:"q"`
	D        int           `json:"d"`
	D2       int           `json:"d2"`
	Doc      interface{}   `json:"doc"`
	Doc2     interface{}   `json:"doc2"` // present: the second goroutine searches this document instead of the shared one
	Allowed1 []interface{} `json:"allowed1"`
	Allowed2 []interface{} `json:"allowed2"`
	OneShot  bool          `json:"oneshot"`
	N        []int         `json:"n"`      // hook counts (filled by phase count)
	Scheds   [][]int       `json:"scheds"` // schedules to replay (filled by the orchestrator from TLC output)
}

func goid() int64 {
	var buf [64]byte
	n := runtime.Stack(buf[:], false)
	f := bytes.Fields(buf[:n])
	id, _ := strconv.ParseInt(string(f[1]), 10, 64)
	return id
}

type gate struct {
	arrive chan struct{}
	resume chan struct{}
	done   chan struct{}
}

// call i of a workload: compiled (shared handle when both expressions are the same) or one-shot
func (w *workload) calls() (func(doc interface{}) (interface{}, error), func(doc interface{}) (interface{}, error), error) {
	s1, s2 := cpsToString(w.E1), cpsToString(w.E2)
	if w.OneShot {
		return func(d interface{}) (interface{}, error) { return jmespath.Search(s1, d) },
			func(d interface{}) (interface{}, error) { return jmespath.Search(s2, d) }, nil
	}
	j1, err := jmespath.Compile(s1)
	if err != nil {
		return nil, nil, err
	}
	j2 := j1
	if s2 != s1 {
		if j2, err = jmespath.Compile(s2); err != nil {
			return nil, nil, err
		}
	}
	return j1.Search, j2.Search, nil
}

func soloCount(call func(interface{}) (interface{}, error), doc interface{}) (int, Obs) {
	atomic.StoreInt64(&hookCount, 0)
	setHooks(countingHook)
	o := direct(func() (interface{}, error) { return call(doc) })
	setHooks(nil)
	return int(atomic.LoadInt64(&hookCount)), o
}

// runSchedule replays one interleaving; returns the two observations and the step at which the shared
// document first differed from its initial value (-1: never).
func runSchedule(c1, c2 func(interface{}) (interface{}, error), doc interface{}, doc2 interface{}, sched []int) ([2]Obs, int) {
	var gates sync.Map
	calls := []func(interface{}) (interface{}, error){c1, c2}
	docsOf := []interface{}{doc, doc2}
	gs := make([]*gate, 2)
	var res [2]Obs
	before := deepCopy([]interface{}{doc, doc2})
	changedAt := -1
	setHooks(func() {
		v, ok := gates.Load(goid())
		if !ok {
			return
		}
		g := v.(*gate)
		g.arrive <- struct{}{}
		<-g.resume
	})
	for i := range calls {
		g := &gate{make(chan struct{}), make(chan struct{}), make(chan struct{})}
		gs[i] = g
		go func(i int) {
			gates.Store(goid(), g)
			res[i] = direct(func() (interface{}, error) { return calls[i](docsOf[i]) })
			gates.Delete(goid())
			close(g.done)
		}(i)
		select { // run to the first hook point (or completion)
		case <-g.arrive:
		case <-g.done:
		}
	}
	step := func(g *gate) {
		select {
		case g.resume <- struct{}{}:
			select {
			case <-g.arrive:
			case <-g.done:
			}
		case <-g.done:
		}
	}
	for k, gi := range sched {
		step(gs[gi-1])
		if changedAt < 0 && !reflect.DeepEqual(before, []interface{}{doc, doc2}) {
			changedAt = k
		}
	}
	for _, g := range gs { // drain
		for fin := false; !fin; {
			select {
			case g.resume <- struct{}{}:
				select {
				case <-g.arrive:
				case <-g.done:
					fin = true
				}
			case <-g.done:
				fin = true
			}
		}
	}
	setHooks(nil)
	if changedAt < 0 && !reflect.DeepEqual(before, []interface{}{doc, doc2}) {
		changedAt = len(sched)
	}
	return res, changedAt
}

type schedViolation struct {
	Cat      string      `json:"cat"`
	Tool     string      `json:"tool"`
	ID       int         `json:"id"`
	Src      string      `json:"src"`
	Observed string      `json:"observed"`
	Sched    []int       `json:"schedule,omitempty"`
	Rec      interface{} `json:"rec"`
}

func readWorkloads(files []string) ([]workload, error) {
	var ws []workload
	for _, fn := range files {
		f, err := os.Open(fn)
		if err != nil {
			return nil, err
		}
		sc := bufio.NewScanner(f)
		sc.Buffer(make([]byte, 1<<26), 1<<26)
		for sc.Scan() {
			var w workload
			if err := json.Unmarshal(sc.Bytes(), &w); err != nil {
				return nil, err
			}
			if w.K == "workload" {
				ws = append(ws, w)
			}
		}
		f.Close()
	}
	return ws, nil
}

func (w *workload) twoDocs() bool {
	a, ok := w.Doc2.([]interface{})
	return ok && len(a) > 0
}

func wid(w *workload) int {
	id := w.P*100000 + w.Q*1000 + w.D*20 + w.D2*2
	if w.OneShot {
		id++
	}
	return id
}

func cmdSched(args []string) int {
	fs := flag.NewFlagSet("sched", flag.ExitOnError)
	out := fs.String("out", "", "summary (JSON)")
	phase := fs.String("phase", "run", "count | run")
	counted := fs.String("counted", "", "phase count: write workloads with hook counts (ndjson)")
	canary := fs.Int("canary-every", 0, "corrupt one goroutine's observation every N schedules")
	fs.Parse(args)
	ws, err := readWorkloads(fs.Args())
	if err != nil {
		fmt.Fprintln(os.Stderr, err)
		return 2
	}
	sum := struct {
		Cases       int              `json:"cases"`
		Evaluations int              `json:"evaluations"`
		Nontrivial  int              `json:"distinct_nontrivial"`
		Counts      map[string]int   `json:"violation_counts"`
		Violations  []schedViolation `json:"violations"`
		Samples     []interface{}    `json:"samples"`
		CanariesIn  int              `json:"canaries_injected"`
		CanariesHit int              `json:"canaries_caught"`
		Hooks       bool             `json:"hooks"`
		Workloads   int              `json:"workloads"`
	}{Counts: map[string]int{}, Hooks: hooksAvailable}
	add := func(w *workload, cat, obs string, sched []int, isCanary bool) {
		if isCanary {
			sum.CanariesHit++
			return
		}
		sum.Counts[cat]++
		if len(sum.Violations) < 100 {
			raw, _ := json.Marshal(w)
			var rec interface{}
			json.Unmarshal(raw, &rec)
			if m, ok := rec.(map[string]interface{}); ok && sched != nil {
				m["scheds"] = [][]int{sched}
			}
			sum.Violations = append(sum.Violations, schedViolation{Cat: cat, Tool: "sched", ID: wid(w), Src: cpsToString(w.E1) + "  ||  " + cpsToString(w.E2), Observed: obs, Sched: sched, Rec: rec})
		}
	}
	var cf *os.File
	if *phase == "count" && *counted != "" {
		cf, _ = os.Create(*counted)
		defer cf.Close()
	}
	nsched := 0
	for wi := range ws {
		w := &ws[wi]
		sum.Workloads++
		c1, c2, err := w.calls()
		if err != nil {
			add(w, "sched-compile", err.Error(), nil, false)
			continue
		}
		mk := func() interface{} { return decodeValue(w.Doc) }
		mk2 := mk
		if w.twoDocs() {
			mk2 = func() interface{} { return decodeValue(w.Doc2) }
		}
		if *phase == "count" {
			n1, o1 := soloCount(c1, mk())
			n2, o2 := soloCount(c2, mk2())
			sum.Evaluations += 2
			if m, _ := matchOutcome(o1, w.Allowed1, false); !m {
				add(w, "sched-solo", "solo call 1: "+o1.String(), nil, false)
			}
			if m, _ := matchOutcome(o2, w.Allowed2, false); !m {
				add(w, "sched-solo", "solo call 2: "+o2.String(), nil, false)
			}
			w.N = []int{n1, n2}
			if cf != nil {
				b, _ := json.Marshal(w)
				cf.Write(append(b, '\n'))
			}
			continue
		}
		for _, s := range w.Scheds {
			doc := mk()
			doc2 := doc
			if w.twoDocs() {
				doc2 = mk2()
			}
			res, changedAt := runSchedule(c1, c2, doc, doc2, s)
			nsched++
			sum.Cases++
			sum.Evaluations += 2
			isCanary := false
			if *canary > 0 && nsched%*canary == 0 && res[1].Kind == "ok" && !strings.Contains(mustJSON(w.Allowed2), "unspec") {
				res[1] = Obs{Kind: "ok", Value: "☃canary"}
				isCanary = true
				sum.CanariesIn++
			}
			m1, _ := matchOutcome(res[0], w.Allowed1, false)
			m2, _ := matchOutcome(res[1], w.Allowed2, false)
			if !m1 || !m2 {
				add(w, "sched-outcome", fmt.Sprintf("goroutine results %s / %s", res[0].String(), res[1].String()), s, isCanary)
			}
			if changedAt >= 0 && !isCanary {
				add(w, "sched-docmod", fmt.Sprintf("shared document modified at step %d: %s", changedAt, mustJSON(doc)), s, false)
			}
			if len(s) >= 2 && (!isTrivialAllowed(w.Allowed1) || !isTrivialAllowed(w.Allowed2)) {
				sum.Nontrivial++
			}
			if len(sum.Samples) < 4 && nsched%211 == 0 {
				sum.Samples = append(sum.Samples, map[string]interface{}{"goroutine1": cpsToString(w.E1), "goroutine2": cpsToString(w.E2),
					"shared_document": json.RawMessage(mustJSON(mk())), "one_shot": w.OneShot, "schedule": s, "results": []string{res[0].String(), res[1].String()}})
			}
		}
	}
	b, _ := json.MarshalIndent(sum, "", " ")
	if *out != "" {
		os.WriteFile(*out, b, 0o644)
	} else {
		fmt.Println(string(b))
	}
	return 0
}

// jmv race: free-running goroutines on the workloads; meaningful when built with -race (the detector
// reports to stderr and makes the process exit with GORACE's exitcode).
func cmdRace(args []string) int {
	fs := flag.NewFlagSet("race", flag.ExitOnError)
	out := fs.String("out", "", "summary (JSON)")
	iters := fs.Int("iters", 20, "iterations per goroutine")
	gor := fs.Int("goroutines", 8, "goroutines per workload")
	fs.Parse(args)
	ws, err := readWorkloads(fs.Args())
	if err != nil {
		fmt.Fprintln(os.Stderr, err)
		return 2
	}
	wrong := int64(0)
	total := int64(0)
	var firstWrong atomic.Value
	for wi := range ws {
		w := &ws[wi]
		c1, c2, err := w.calls()
		if err != nil {
			continue
		}
		doc := decodeValue(w.Doc)
		doc2 := doc
		if w.twoDocs() {
			doc2 = decodeValue(w.Doc2)
		}
		var wg sync.WaitGroup
		for g := 0; g < *gor; g++ {
			wg.Add(1)
			go func(g int) {
				defer wg.Done()
				for it := 0; it < *iters; it++ {
					call, allowed, dd := c1, w.Allowed1, doc
					if (g+it)%2 == 1 {
						call, allowed, dd = c2, w.Allowed2, doc2
					}
					o := direct(func() (interface{}, error) { return call(dd) })
					atomic.AddInt64(&total, 1)
					if m, _ := matchOutcome(o, allowed, false); !m {
						if atomic.AddInt64(&wrong, 1) == 1 {
							firstWrong.Store(fmt.Sprintf("%s || %s on %s: %s", cpsToString(w.E1), cpsToString(w.E2), mustJSON(decodeValue(w.Doc)), o.String()))
						}
					}
				}
			}(g)
		}
		// a caller that only reads its own document, deeply, while the queries run
		wg.Add(1)
		go func() {
			defer wg.Done()
			for it := 0; it < *iters; it++ {
				_ = deepCopy(doc)
			}
		}()
		wg.Wait()
	}
	fw, _ := firstWrong.Load().(string)
	b, _ := json.Marshal(map[string]interface{}{"calls": total, "wrong_results": wrong, "first_wrong": fw, "workloads": len(ws)})
	if *out != "" {
		os.WriteFile(*out, b, 0o644)
	} else {
		fmt.Println(string(b))
	}
	return 0
}
