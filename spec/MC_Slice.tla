----------------------------- MODULE MC_Slice -----------------------------
(* C08 on the specification: for every array length up to MaxLen and every (start, stop, step) in
   ({absent} u [-len-4, len+4])^3, step # 0: the selected positions are in range, evenly spaced by
   step, equal to what the code's formulation (capSlice + loop) selects, invariant under saturation
   of the parameters to +-(len+1), [::-1] is reversal, and [a:b] ++ [b:c] = [a:c]. *)
EXTENDS Slice

CONSTANT MaxLen
VARIABLES n, a, b, c
vars == <<n, a, b, c>>
W(len) == {NoneP} \cup {IntP(x) : x \in -(len + 4)..(len + 4)}
Init == n = -1 /\ a = NoneP /\ b = NoneP /\ c = NoneP
PickLen == n = -1 /\ n' \in 0..MaxLen /\ UNCHANGED <<a, b, c>>
PickA == n >= 0 /\ a = NoneP /\ b = NoneP /\ c = NoneP /\ a' \in W(n) /\ b' \in W(n) /\ c' \in W(n) /\ UNCHANGED n
Next == PickLen \/ PickA
Spec == Init /\ [][Next]_vars
Holds ==
  n >= 0 /\ ~(HasP(c) /\ c[2] = 0) =>
    LET parts == <<a, b, c>> IN
    /\ InRange(n, parts) /\ Monotone(n, parts) /\ CodeAgrees(n, parts) /\ Saturation(n, parts)
    /\ FullReverse(n)
    /\ (HasP(a) /\ HasP(b) /\ HasP(c) => Partition(n, a[2], b[2], c[2]))
=============================================================================
