------------------------------- MODULE Gen_Go -------------------------------
(* Cases for C18: navigational expressions (family C18) and every function on typed values (family C18p),
   each with the TYPED documents of GoValues.tla as descriptors that the harness materialises as real Go
   structs, pointers and typed slices, and with the outcome set of the specification on the JSON form J(g). *)
EXTENDS Families, Json
CONSTANTS Shard, NShards, OutFile, Seed, Stride, Stride3
CaseG(g, i) == LET e == ExprAt(g, i) toks == UnparseMin(e) IN
  IF IsBad(toks) THEN [k |-> "skip"]
  ELSE [k |-> "case", id |-> i, n |-> Size(e), srcs |-> <<Render(toks, "tight")>>,
        allowed |-> [d \in 1..Len(GoDocs) |-> IF Family = "C18p" THEN {UNSPEC} ELSE Outcomes(LowerFields(e), J(GoDocs[d]))]]
ASSUME LET g == Ctx
           mine == MineSeq(g, Shard, NShards, Stride, Stride3, Seed)
           out == <<[k |-> "docs", fam |-> Family, typed |-> GoDocs, docs |-> [d \in 1..Len(GoDocs) |-> J(GoDocs[d])]]>>
                  \o SelectSeq([m \in 1..Len(mine) |-> CaseG(g, mine[m])], LAMBDA r : r.k = "case")
       IN PrintT(<<"GEN", Family, Len(out) - 1>>) /\ ndJsonSerialize(OutFile, out)
VARIABLE x
Init == x = 0
Next == x' = x
=============================================================================
