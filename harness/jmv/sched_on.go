//go:build verif

package main

// Gate implementation of schedule replay: uses the verif hooks of the library (Execute entry and parser
// steps) as blocking gates.

import (
	"strings"
	"sync/atomic"

	jmespath "github.com/jmespath/go-jmespath"
)

const hooksAvailable = true

// setHooks installs h on every hook point of the library (nil removes it).
func setHooks(h func()) {
	if h == nil {
		jmespath.VerifEnterHook = nil
		jmespath.VerifParseHook = nil
		return
	}
	jmespath.VerifEnterHook = func(string, interface{}) { h() }
	jmespath.VerifParseHook = func(string, string) { h() }
}

var hookCount int64

func countingHook() { atomic.AddInt64(&hookCount, 1) }

// recordEnters runs f with a hook that logs the kind of every node entered (Execute entry sequence).
func recordEnters(f func()) []string {
	var seq []string
	jmespath.VerifEnterHook = func(kind string, _ interface{}) { seq = append(seq, strings.TrimPrefix(kind, "AST")) }
	defer func() { jmespath.VerifEnterHook = nil }()
	f()
	return seq
}

// recordParse runs f with a hook that logs every nud / led step of the parser as [kind, token type] in the
// specification's token names (the parser machine's trail, ParserM.tla).
func recordParse(f func()) []interface{} {
	seq := []interface{}{}
	jmespath.VerifParseHook = func(kind string, tok string) { seq = append(seq, []interface{}{kind, tokNames[tok]}) }
	defer func() { jmespath.VerifParseHook = nil }()
	f()
	return seq
}
