package main

// jmv meta: metamorphic replay for C15 (pipe law, referential transparency); both sides are the real code.

import (
	"bufio"
	"encoding/json"
	"flag"
	"fmt"
	"os"
	"reflect"
	"strings"

	jmespath "github.com/jmespath/go-jmespath"
)

type metaRec struct {
	K       string          `json:"k"`
	ID      int             `json:"id"`
	N       int             `json:"n"`
	Src     []interface{}   `json:"src"`
	A       []interface{}   `json:"a"`
	B       []interface{}   `json:"b"`
	Lits    [][]interface{} `json:"lits"`
	Allowed [][]interface{} `json:"allowed"`
	Docs    []interface{}   `json:"docs"`
}

func cmdMeta(args []string) int {
	fs := flag.NewFlagSet("meta", flag.ExitOnError)
	out := fs.String("out", "", "summary (JSON)")
	canary := fs.Int("canary-every", 0, "corrupt one side every N comparisons")
	fs.Parse(args)
	type viol struct {
		Cat      string      `json:"cat"`
		Tool     string      `json:"tool"`
		ID       int         `json:"id"`
		Src      string      `json:"src"`
		Observed string      `json:"observed"`
		Rec      interface{} `json:"rec"`
		Pools    interface{} `json:"pools"`
	}
	sum := struct {
		Cases       int            `json:"cases"`
		Evaluations int            `json:"evaluations"`
		Nontrivial  int            `json:"distinct_nontrivial"`
		Counts      map[string]int `json:"violation_counts"`
		Violations  []viol         `json:"violations"`
		Samples     []interface{}  `json:"samples"`
		CanariesIn  int            `json:"canaries_injected"`
		CanariesHit int            `json:"canaries_caught"`
	}{Counts: map[string]int{}}
	cmp := 0
	for _, fn := range fs.Args() {
		f, err := os.Open(fn)
		if err != nil {
			fmt.Fprintln(os.Stderr, err)
			return 2
		}
		sc := bufio.NewScanner(f)
		sc.Buffer(make([]byte, 1<<26), 1<<26)
		var docs []interface{}
		var poolsRaw interface{}
		for sc.Scan() {
			var r metaRec
			if err := json.Unmarshal(sc.Bytes(), &r); err != nil {
				fmt.Fprintln(os.Stderr, fn, err)
				return 2
			}
			var raw interface{}
			json.Unmarshal(sc.Bytes(), &raw)
			if r.K == "docs" {
				docs = r.Docs
				poolsRaw = raw
				continue
			}
			sum.Cases++
			src := cpsToString(r.Src)
			add := func(cat, obs string, isCanary bool) {
				if isCanary {
					sum.CanariesHit++
					return
				}
				sum.Counts[cat]++
				if len(sum.Violations) < 200 {
					sum.Violations = append(sum.Violations, viol{Cat: cat, Tool: "meta", ID: r.ID, Src: src, Observed: obs, Rec: raw, Pools: poolsRaw})
				}
			}
			nt := false
			for di, dt := range docs {
				allowed := r.Allowed[di]
				mk := func() interface{} { return decodeValue(dt) }
				whole := direct(func() (interface{}, error) { return jmespath.Search(src, mk()) })
				sum.Evaluations++
				if m, _ := matchOutcome(whole, allowed, false); !m {
					add("meta-outcome", fmt.Sprintf("document %s: %s not allowed by the specification", mustJSON(mk()), whole.String()), false)
				}
				var other Obs
				desc := ""
				switch r.K {
				case "pipe":
					a, b := cpsToString(r.A), cpsToString(r.B)
					other = direct(func() (interface{}, error) {
						x, err := jmespath.Search(a, mk())
						if err != nil {
							return nil, err
						}
						return jmespath.Search(b, x)
					})
					desc = fmt.Sprintf("Search(%q, d) = %s but Search(%q, Search(%q, d)) = %s on d = %s", src, whole.String(), b, a, other.String(), mustJSON(mk()))
					sum.Evaluations += 2
				case "subst":
					if len(r.Lits[di]) == 0 {
						continue
					}
					lit := cpsToString(r.Lits[di][0])
					av := direct(func() (interface{}, error) { return jmespath.Search(cpsToString(r.A), mk()) })
					if av.Kind != "ok" || !matchValue(av.Value, r.Lits[di][1], false) {
						add("meta-outcome", fmt.Sprintf("sub-expression %q on %s: %s, specification: %s", cpsToString(r.A), mustJSON(mk()), av.String(), mustJSON(r.Lits[di][1])), false)
						continue
					}
					other = direct(func() (interface{}, error) { return jmespath.Search(lit, mk()) })
					desc = fmt.Sprintf("Search(%q, d) = %s but with the sub-expression replaced by its value, Search(%q, d) = %s on d = %s", src, whole.String(), lit, other.String(), mustJSON(mk()))
					sum.Evaluations += 2
				}
				cmp++
				isCanary := false
				if *canary > 0 && cmp%*canary == 0 && other.Kind == "ok" && !strings.Contains(mustJSON(allowed), "unspec") {
					other = Obs{Kind: "ok", Value: "☃canary"}
					isCanary = true
					sum.CanariesIn++
				}
				if m, _ := matchOutcome(other, allowed, false); !m {
					add("meta-law", desc+" (not allowed by the specification)", isCanary)
				} else if len(allowed) == 1 && (whole.Kind != other.Kind || (whole.Kind == "ok" && !reflect.DeepEqual(whole.Value, other.Value))) {
					add("meta-law", desc, isCanary)
				}
				if !isTrivialAllowed(allowed) {
					nt = true
				}
			}
			if nt {
				sum.Nontrivial++
			}
			if len(sum.Samples) < 5 && sum.Cases%173 == 0 {
				sum.Samples = append(sum.Samples, map[string]interface{}{"kind": r.K, "expression": src, "a": cpsToString(r.A), "b": cpsToString(r.B)})
			}
		}
		f.Close()
	}
	b, _ := json.MarshalIndent(sum, "", " ")
	if *out != "" {
		os.WriteFile(*out, b, 0o644)
	} else {
		fmt.Println(string(b))
	}
	return 0
}
