-------------------------------- MODULE Api --------------------------------
(* The public API as a state machine (api.go): a compiled expression (handle) that is searched many
   times, a Parser object that is reused for many expressions, and the documents the caller owns
   (C06, C13; the concurrent composition is in Sched.tla / HeapRace.tla).

   State:   ast      the AST inside the handle (its literal values are Go slices and maps, so they are
                     mutable cells that an evaluation could write)
            docs     the caller's documents (likewise)
            ptoks, pidx   the Parser object's tokens and index fields
            last     what the last call returned, with what a *fresh* object returns for the same call
   Actions: Search(d)      the Search method of the compiled expression on document d
            ParseCall(e)   the Parse method of the Parser object on expression text e (the parser is reused)

   In the specified behaviour no action writes ast or docs and Parse starts from a reset parser, so the
   result of a call is a function of (expression, document) alone.  Two named deviations make the state
   matter (negative controls, and the reproduction recipe of the defect the pinned code had):
     "InPlaceSortBy"  sort_by sorts its argument array in place (a literal inside ast, or part of a document)
     "NoIndexReset"   Parse does not reset p.index                                                     *)
EXTENDS Text

CONSTANTS AstPool,     \* sequence of compiled expressions; one of them is under test in a behaviour
          Docs0,       \* sequence of documents
          Texts,       \* sequence of expression texts for the parser
          MaxCalls

VARIABLES a0, ast, docs, ptoks, pidx, last, n
vars == <<a0, ast, docs, ptoks, pidx, last, n>>
Ast0 == a0

Init == a0 \in {AstPool[i] : i \in 1..Len(AstPool)} /\ ast = a0 /\ docs = Docs0 /\ ptoks = <<>> /\ pidx = 1 /\ last = <<"none">> /\ n = 0

(* ---- effects of the in-place deviation: the array argument of sort_by is replaced by its sorted form *)
SortedBy(arr, key) ==
  LET o == Outcomes(Fn(NameCps["sort_by"], <<Lit(arr), Ref(key)>>), Null) IN
  IF \E x \in o : x[1] = "ok" THEN (CHOOSE x \in o : x[1] = "ok")[2] ELSE arr
RECURSIVE AstAfter(_, _)
AstAfter(e, v) ==          \* the AST after evaluating e against v, when sort_by works in place
  IF e[1] = "FunctionExpression" /\ FnOf(e[2]) = "sort_by" /\ Len(e[3]) = 2 /\ e[3][1][1] = "Literal" /\ e[3][2][1] = "ExpRef"
  THEN Fn(e[2], <<Lit(SortedBy(e[3][1][2], e[3][2][2])), e[3][2]>>)
  ELSE LET ks == Kids(e) IN IF ks = <<>> THEN e ELSE WithKids(e, [i \in 1..Len(ks) |-> AstAfter(ks[i], v)])
RECURSIVE DocAfter(_, _)
DocAfter(e, v) ==          \* the document after evaluating e against it: sort_by(@, &k) and sort_by(a, &k) write through
  IF e[1] = "FunctionExpression" /\ FnOf(e[2]) = "sort_by" /\ Len(e[3]) = 2 /\ e[3][2][1] = "ExpRef"
  THEN IF e[3][1] = Current /\ v[1] = "arr" THEN SortedBy(v, e[3][2][2])
       ELSE IF e[3][1][1] = "Field" /\ v[1] = "obj" /\ Lookup(v, e[3][1][2])[1] = "arr"
            THEN Obj({kv \in v[2] : kv[1] # e[3][1][2]} \cup {<<e[3][1][2], SortedBy(Lookup(v, e[3][1][2]), e[3][2][2])>>})
       ELSE v
  ELSE IF e[1] \in {"Pipe", "Subexpression", "OrExpression", "AndExpression", "MultiSelectList", "NotExpression"}
       THEN LET ks == Kids(e) IN DocAfter(ks[1], v)       \* (first operand only: enough for the controls)
  ELSE v

Search(d) ==
  /\ n < MaxCalls
  /\ \E o \in Outcomes(ast, docs[d]) :
       last' = <<"search", d, o, Outcomes(Ast0, Docs0[d])>>
  /\ ast' = IF "InPlaceSortBy" \in Dev THEN AstAfter(ast, docs[d]) ELSE ast
  /\ docs' = IF "InPlaceSortBy" \in Dev THEN [docs EXCEPT ![d] = DocAfter(ast, docs[d])] ELSE docs
  /\ n' = n + 1 /\ UNCHANGED <<a0, ptoks, pidx>>

(* Parser.Parse on a reused parser: reset index, tokenize, replace tokens, parse from the index *)
ParseFrom(toks, start) ==
  IF start > Len(toks) THEN <<<<"panic">>, start>>
  ELSE LET r == ParseExpr(toks, start, 0) IN
       IF r[1] \in {"panic", "other", "unmodelled"} THEN <<<<r[1]>>, start>>
       ELSE IF ~PIsOk(r) THEN <<<<"err", r[3]>>, r[3]>>
       ELSE IF TT(toks, r[3]) = "eof" THEN <<<<"ok", r[2]>>, r[3]>> ELSE <<<<"err", r[3]>>, r[3]>>
ParseCall(t) ==
  /\ n < MaxCalls
  /\ LET start == IF "NoIndexReset" \in Dev THEN pidx ELSE 1
         lx == Lex(Texts[t])
         fresh == CompileModel(Texts[t]) IN
     IF lx[1] # "ok"
     THEN /\ last' = <<"parse", t, <<IF lx[1] \in {"syntax", "othererr"} THEN "err" ELSE lx[1]>>, <<fresh[1]>>>>
          /\ pidx' = start /\ UNCHANGED ptoks
     ELSE LET toks == [i \in 1..Len(lx[2]) |-> ToPTok(lx[2][i])]
              pr == ParseFrom(toks, start) IN
          /\ last' = <<"parse", t, pr[1], IF fresh[1] = "ok" THEN <<"ok", fresh[2]>> ELSE <<fresh[1]>>>>
          /\ ptoks' = toks /\ pidx' = pr[2]
  /\ n' = n + 1 /\ UNCHANGED <<a0, ast, docs>>

Next == (\E d \in 1..Len(Docs0) : Search(d)) \/ (\E t \in 1..Len(Texts) : ParseCall(t))
Spec == Init /\ [][Next]_vars

(* C13: what a call returns is what the same call returns on fresh objects *)
HistoryIndependent ==
  /\ (last[1] = "search" => last[3] \in last[4])
  /\ (last[1] = "parse" => (last[3][1] = last[4][1] /\ (last[3][1] = "ok" => last[3] = last[4])))
(* C06: the documents are never written (as an action property and as an invariant) *)
DocsReadOnly == [][docs' = docs]_vars
DocsIntact == docs = Docs0
(* the handle's AST is never written *)
HandleIntact == ast = Ast0
=============================================================================
