-------------------------------- MODULE Jpgo --------------------------------
(* cmd/jpgo/main.go as a state machine (C19): the phases of run() in order, one Fail action per error
   return.  The inputs are abstracted to what decides the control flow:
     expr  in {"valid", "invalid"}      whether Parser.Parse accepts the expression argument
     input in {"json", "notjson"}       whether the input text is valid JSON
     chan  in {"file", "stdin", "missing"}   -input file that exists / standard input / -input file that does not exist
     eval  in {"ok", "err"}             whether Search returns a value or an error
     enc   in {"ok", "err"}             whether the result can be serialised (a non-finite number cannot)
     nargs in {0, 1, 2}                 number of positional arguments
   Observable: stdout (empty or the JSON text), exit status.                                           *)
EXTENDS Integers, Sequences, TLC

VARIABLES phase, expr, input, chan, eval, enc, nargs, stdout, exit
vars == <<phase, expr, input, chan, eval, enc, nargs, stdout, exit>>

Init == /\ phase = "Args" /\ stdout = "" /\ exit = -1
        /\ expr \in {"valid", "invalid"} /\ input \in {"json", "notjson"} /\ chan \in {"file", "stdin", "missing"}
        /\ eval \in {"ok", "err"} /\ enc \in {"ok", "err"} /\ nargs \in {0, 1, 2}

Fail(site) == phase' = "Exit" /\ exit' = 1 /\ stdout' = stdout /\ UNCHANGED <<expr, input, chan, eval, enc, nargs>>
Go(p) == phase' = p /\ UNCHANGED <<expr, input, chan, eval, enc, nargs, stdout, exit>>

Args == phase = "Args" /\ IF nargs # 1 THEN Fail("usage") ELSE Go("ParseExpr")
ParseExpr == phase = "ParseExpr" /\ IF expr = "invalid" THEN Fail("syntax") ELSE Go("ReadInput")
ReadInput == phase = "ReadInput" /\ IF chan = "missing" THEN Fail("readfile") ELSE Go("Decode")
Decode == phase = "Decode" /\ IF input = "notjson" THEN Fail("json") ELSE Go("Search")
Search == phase = "Search" /\ IF eval = "err" THEN Fail("eval") ELSE Go("Encode")
Encode == phase = "Encode" /\ IF enc = "err" THEN Fail("marshal") ELSE Go("Print")
PrintOut == phase = "Print" /\ phase' = "Exit" /\ stdout' = "json(result)" /\ exit' = 0 /\ UNCHANGED <<expr, input, chan, eval, enc, nargs>>
Next == Args \/ ParseExpr \/ ReadInput \/ Decode \/ Search \/ Encode \/ PrintOut
Spec == Init /\ [][Next]_vars /\ WF_vars(Next)

Valid == nargs = 1 /\ expr = "valid" /\ chan # "missing" /\ input = "json" /\ eval = "ok" /\ enc = "ok"
(* C19 *)
OutputImpliesSuccess == stdout # "" => exit = 0
ExitMeaning == phase = "Exit" => (IF Valid THEN exit = 0 /\ stdout = "json(result)" ELSE exit # 0 /\ stdout = "")
Terminates == <>(phase = "Exit")
=============================================================================
