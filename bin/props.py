"""Per-property pipelines: which specification modules are model-checked, which generator families are
replayed against the real code, which recorded traces are validated, and which observation categories
count as a violation of the property."""
import check as C

Q, T = "quick", "thorough"
EVAL_CATS = ("outcome", "panic", "compile-rejected", "compile-panic", "compile-inconsistent")


def eval_family(ctx, family, strides, shards=None, cats=EVAL_CATS,
                mc=True, oneshot=False, module="Gen_Eval", mc_module="MC_Eval", extra_constants=None, canary_every=5000):
    """L1: model-check the family's theorem on the spec; L2: generate the family and replay it.
    strides = {tier: (stride for levels 1-2, stride for level 3)}; stride 1 = exhaustive."""
    quick = ctx.tier == Q
    stride, stride3 = strides[ctx.tier]
    consts = dict(extra_constants or {})
    if mc:
        c = {"Dev": "{}", "Tier": ctx.tier, "Family": family, "NBlocks": 64, "Stride": stride, "Stride3": stride3, "Seed": ctx.seed}
        c.update(consts)
        C.model_check(ctx, mc_module, c, invariants=["Holds"], spec="Spec", name="%s_%s" % (mc_module, family),
                      extra_cfg=["VIEW View"], workers=C.NCPU, timeout=3000)
    consts["Stride3"] = stride3
    files = C.generate(ctx, module, family, consts, shards or (8 if quick else 16), stride=stride, timeout=3000)
    C.replay(ctx, files, set(cats), oneshot=oneshot, canary_every=canary_every,
             extra=["-doc-canary-every", "7919"] if "docmod" in cats else [])
    ctx.bounds[family] = {"stride_levels_1_2": stride, "stride_level_3": stride3, "exhaustive": stride == 1 and stride3 == 1}


def c01(ctx):
    ctx.rule = ("cases = every expression of the bounded core universe (Families.tla, family C01: leaves x 14 "
                "schemas, two levels) x every document of DocsCore, each in 3 spellings; a case is non-trivial when "
                "its allowed set is not {ok null} and the expression has >= 2 nodes; distinct by (source text, document)")
    eval_family(ctx, "C01", {Q: (12, 8009), T: (1, 211)})
    gen_text(ctx, "nums", 0, 1, cats=EVAL_CATS, contract=False)      # number spellings (leading zeros, 08, -0) as indices / slice bounds / literals
    C.trace_api(ctx, {"outcome", "compile-rejected"}, n=600 if ctx.tier == Q else 6000)
    ctx.exhaustive = False


def mc_interp(ctx, family, stride):
    """Small-step interpreter machine vs. the big-step semantics and its instrumented form (entry sequences)."""
    C.model_check(ctx, "MC_Interp", {"Dev": "{}", "Tier": ctx.tier, "Family": family, "Stride": stride, "Seed": ctx.seed,
                                     "Exprs": "<- ExprsV", "Docs0": "<- DocsV"},
                  invariants=["ResultAllowed", "NeverStuck", "Bounded", "ShortCircuit", "TrailOK"], spec="Spec",
                  name="MC_Interp_%s" % family, workers=C.NCPU, extra_cfg=["VIEW View"], timeout=3000)


def negative(ctx, family, dev, strides=(1, 50)):
    """Negative control of the model: with the deviation switch on, the family's theorem must fail."""
    c = {"Dev": '{"%s"}' % dev, "Tier": ctx.tier, "Family": family, "NBlocks": 64, "Stride": strides[0], "Stride3": strides[1], "Seed": ctx.seed}
    C.model_check(ctx, "MC_Eval", c, invariants=["Holds"], spec="Spec", name="MC_Eval_%s_%s" % (family, dev),
                  extra_cfg=["VIEW View"], workers=C.NCPU, timeout=1200, negative=True)


NT_DEFAULT = "a case is non-trivial when its allowed set is not {ok null} and the expression has >= 2 nodes; distinct by (source text, document)"


def c02(ctx):
    ctx.rule = ("family C02 (Families.tla): 5 projection kinds x 4 bases x 12 right-hand sides (x conditions / slices), wrapped by 19 "
                "schemas (second projection, flatten, filter, pipe, index, ||, &&, ==, !, sub-expression, as RHS of another projection, "
                "multi-select, function argument) x documents with empty / heterogeneous / null-containing arrays and objects; " + NT_DEFAULT)
    eval_family(ctx, "C02", {Q: (7, 1), T: (1, 1)})
    negative(ctx, "C02", "PresizedWildcard", (3, 1))
    mc_interp(ctx, "C02", 60 if ctx.tier == Q else 6)
    C.trace_api(ctx, {"outcome", "compile-rejected"}, n=600 if ctx.tier == Q else 6000)
    ctx.exhaustive = False


def c07(ctx):
    ctx.rule = ("family C07: all ordered pairs of the value universe V7 (incl. look-alikes of other types) x 6 comparators, ||, &&, and !, "
                "operands as literals; nestings of two operators (level 3, sampled); family C07d: the same operators with both operands "
                "read from the document and inside filter conditions, all pairs of V7 as documents; " + NT_DEFAULT)
    eval_family(ctx, "C07", {Q: (1, 101), T: (1, 5)})
    eval_family(ctx, "C07d", {Q: (1, 1), T: (1, 1)})
    mc_interp(ctx, "C07d", 1)        # ShortCircuit: the right operand is entered only when needed
    ctx.exhaustive = False


def c03(ctx):
    ctx.rule = ("family C03: all trees with up to three operators built by 36 ways of putting an operator around a sub-tree (binary operators on "
                "either side, !, &, call, multi-select, index, the five projection kinds as base / right-hand side / condition) over 4 atoms; "
                "each tree spelled minimally parenthesised, fully parenthesised and with quoted identifiers + mixed whitespace, replayed on 8 "
                "documents chosen to separate alternative groupings; non-trivial: >= 2 operator nodes (expression size >= 4) and allowed set not "
                "{ok null}; distinct by (source text, document)")
    eval_family(ctx, "C03", {Q: (1, 3), T: (1, 1)})
    negative(ctx, "C03", "VPDot40", (1, 1))
    ctx.exhaustive = ctx.tier == T


PARSE_CATS = EVAL_CATS + ("compile-accepted",)


def gen_parse(ctx, mode, family, maxlen, strides, shards=None, cats=PARSE_CATS):
    stride, stride3 = strides
    consts = {"Mode": mode, "MaxLen": maxlen, "Stride3": stride3}
    files = C.generate(ctx, "Gen_Parse", family, consts, shards or (8 if ctx.tier == Q else 16), stride=stride, timeout=3000,
                       name="Gen_Parse_%s_%d" % (mode, maxlen))
    C.replay(ctx, files, set(cats))
    ctx.bounds["%s/%s/%d" % (mode, family, maxlen)] = {"stride": stride, "stride3": stride3}


def mc_parse(ctx, maxlen, dev="{}", used1=True, negative=False, name=None, deep=False):
    C.model_check(ctx, "MC_Parse", {"Dev": dev, "MaxLen": maxlen, "UseD1": used1, "Deep": deep}, invariants=["Agree", "NoPanic", "ErrIdx"],
                  spec="Spec", name=name or "MC_Parse_%s%d" % ("deep_" if deep else "", maxlen), workers=C.NCPU, timeout=3000, negative=negative)


def mc_parserm(ctx, maxlen, live=True):
    """ParserM.tla: the explicit-stack parser machine refines the recursive Pratt specification on every token string up to
    maxlen, never reads past eof, consumes a token per nud / led step, has a bounded stack and terminates."""
    C.model_check(ctx, "MC_ParserM", {"Dev": "{}", "MaxLen": maxlen}, invariants=["Inv", "NeverStuck"],
                  properties=["Terminates"] if live else [], spec="FairSpec" if live else "Spec",
                  name="MC_ParserM_%d" % maxlen, workers=C.NCPU, timeout=3000)
    C.model_check(ctx, "MC_ParserM", {"Dev": '{"LedNoAdvance"}', "MaxLen": 2}, invariants=["Inv"], spec="Spec",
                  name="MC_ParserM_neg_LedNoAdvance", workers=4, negative=True)


def mc_lexm(ctx, maxlen, live=True):
    """LexM.tla: the rune-by-rune lexer machine refines Lexer!Lex on every string up to maxlen (two tokenize() calls per
    history), reads inside the input, takes a linear number of steps, keeps tokens ordered, starts every call with an empty
    raw-string buffer, terminates; negative control: one lexer object kept across calls (ReuseLexer)."""
    C.model_check(ctx, "MC_LexM", {"Dev": "{}", "MaxLen": maxlen, "Calls": 2}, invariants=["Refines", "Inv", "NeverStuck"],
                  properties=["Terminates"] if live else [], spec="FairSpec" if live else "Spec",
                  name="MC_LexM_%d" % maxlen, workers=C.NCPU, timeout=3000)
    C.model_check(ctx, "MC_LexM", {"Dev": '{"ReuseLexer"}', "MaxLen": 3, "Calls": 2}, invariants=["Refines"], spec="Spec",
                  name="MC_LexM_neg_ReuseLexer", workers=8, negative=True)


def c04(ctx):
    ctx.rule = ("strings: every token string over a 28-symbol token alphabet up to length 4 (quick: seeded 1/8 slice of length 4; thorough: "
                "all, plus a slice of length 5), each rendered with no / single / mixed whitespace, expected to compile iff the ABNF chart "
                "recogniser derives it; mutants: sentences spelled from evaluator-family ASTs and their single-token deletions, "
                "transpositions, replacements, insertions; non-trivial: >= 2 tokens; distinct by source text")
    quick = ctx.tier == Q
    mc_parse(ctx, 4 if quick else 5)
    mc_parse(ctx, 4, used1=False, negative=True, name="MC_Parse_neg_D1_outside_ABNF")
    C.model_check(ctx, "MC_ParseNeg", {"Dev": "{}"}, invariants=["Holds", "VPTree"], spec="Spec", name="MC_ParseNeg_spec", workers=2)
    for dev in ["ArgsNoComma", "HashNoComma", "LaxSlice", "NudSwallowsBracketError", "VPDot40"] + ([] if quick else ["AnyCallee"]):
        C.model_check(ctx, "MC_ParseNeg", {"Dev": '{"%s"}' % dev}, invariants=["Holds", "VPTree"], spec="Spec",
                      name="MC_ParseNeg_" + dev, workers=2, negative=True)
    mc_parse(ctx, 6 if quick else 7, deep=True)      # longer strings over the nesting tokens ( ) id "id" , @
    gen_parse(ctx, "strings", "C01", 3, (1, 1))
    gen_parse(ctx, "strings", "C01", 4, (8, 1) if quick else (1, 1))
    gen_parse(ctx, "deep", "C01", 6 if quick else 7, (1, 1))
    gen_text(ctx, "nums", 0, 1, cats=PARSE_CATS, contract=False)     # every spelling of a number is grammatical: [010], [08], [-0], [::09]
    if not quick:
        gen_parse(ctx, "strings", "C01", 5, (97, 1))
    gen_parse(ctx, "mutants", "C02", 0, (150, 1) if quick else (7, 1))
    gen_parse(ctx, "mutants", "C01", 0, (600, 4000000) if quick else (90, 1000000))
    gen_parse(ctx, "mutants", "C09n", 0, (12, 1) if quick else (1, 1))
    gen_parse(ctx, "mutants", "C08", 0, (700, 1) if quick else (40, 1))      # slices incl. step 0, negative and huge numbers
    mc_parserm(ctx, 3 if quick else 4)
    C.trace_api(ctx, {"compile-accepted", "compile-rejected"}, n=800 if quick else 8000, parse=True, mutants=600 if quick else 6000)
    ctx.exhaustive = False


TEXT_CATS = PARSE_CATS + ("synerr-expression", "synerr-offset", "synerr-highlight", "mustcompile", "compile-timeout", "timeout")


def gen_text(ctx, mode, maxlen, stride, cats=TEXT_CATS, shards=None, contract=True):
    consts = {"Mode": mode, "MaxLen": maxlen}
    consts.pop("Stride3", None)
    files = C.generate(ctx, "Gen_Text", mode, consts, shards or (8 if ctx.tier == Q else 16), stride=stride,
                       timeout=3000 if ctx.tier == Q else 9000, name="Gen_Text_%s_%d" % (mode, maxlen), family_constant=False)
    C.replay(ctx, files, set(cats), extra=["-contract"] if contract else [])
    ctx.bounds["text/%s/%d" % (mode, maxlen)] = {"stride": stride}


def mc_lex(ctx, maxlen, alpha="coarse", dev="{}", negative=False, invs=None, name=None):
    C.model_check(ctx, "MC_Lex", {"Dev": dev, "MaxLen": maxlen, "AlphaName": alpha},
                  invariants=invs or ["NoPanic", "OffsetOK", "QuotedId", "RawString", "Literal", "Unquoted", "Whitespace", "Pipeline"],
                  spec="Spec", name=name or "MC_Lex_%s_%d" % (alpha, maxlen), workers=C.NCPU, timeout=3000, negative=negative)


def c14(ctx):
    ctx.rule = ("for every string s up to 3 characters (thorough: also a seeded half of the strings of 4 characters) over a 32-symbol alphabet of character classes (letter, digit, _, "
                "space, the three quote characters, backslash, brackets, punctuation, u, control, tab, DEL, U+0080, 2/3/4-byte runes, U+FFFD): "
                "the quoted identifier, raw string, JSON literal, multi-select key, length() and == spelled from s, each with the value the "
                "property assigns; every 2-character string over all ASCII + boundary runes for identifier membership; non-trivial: the allowed "
                "set is not {ok null} (every C14 spelling denotes a non-null value); distinct by (source text, document)")
    quick = ctx.tier == Q
    mc_lex(ctx, 3 if quick else 4)
    mc_lex(ctx, 2, alpha="fine", invs=["NoPanic", "OffsetOK", "Unquoted", "QuotedId", "Pipeline"])
    mc_lexm(ctx, 3)      # the token values above are those of the rune-by-rune machine (Refines), also after an earlier failed call
    gen_text(ctx, "c14", 3, 1, cats=EVAL_CATS, contract=False)
    if not quick:
        # length 4: a seeded half of the 707 k strings (the whole set needs ~35 min of TLC time on 16 idle cores)
        gen_text(ctx, "c14", 4, 2, cats=EVAL_CATS, contract=False)
    gen_text(ctx, "fine", 2, 1, cats=PARSE_CATS, contract=False)
    gen_text(ctx, "ident", 0, 1, cats=PARSE_CATS, contract=False)
    ctx.exhaustive = True


def c17(ctx):
    ctx.rule = ("every string up to 3 (quick) / 4 (thorough) characters over the 32-symbol class alphabet, every string up to 2 characters over "
                "ASCII + boundary runes + raw invalid bytes, and the token strings / near-miss mutants of C04: Compile returns exactly one of "
                "(expression, nil) / (nil, error); SyntaxError carries the input and an offset in range, HighlightLocation is the caret "
                "rendering, MustCompile panics iff Compile fails and names the expression; the offset the specification predicts is compared "
                "as drift; non-trivial: the expression fails to compile; distinct by source text")
    quick = ctx.tier == Q
    mc_lex(ctx, 3 if quick else 4, invs=["NoPanic", "OffsetOK", "Pipeline"])
    mc_parse(ctx, 3 if quick else 4)
    gen_text(ctx, "coarse", 3 if quick else 4, 1 if quick else 1)
    gen_text(ctx, "fine", 2, 2 if quick else 1)
    gen_text(ctx, "ident", 0, 1)
    C.replay(ctx, C.generate(ctx, "Gen_Parse", "C01", {"Mode": "strings", "MaxLen": 3, "Stride3": 1}, 8, stride=1, name="Gen_Parse_strings_3"),
             set(TEXT_CATS), extra=["-contract"])
    ctx.exhaustive = True


def mc_api(ctx, dev="{}", negative=False, name=None):
    C.model_check(ctx, "MC_Api", {"Dev": dev, "AstPool": "<- MCAsts", "Docs0": "<- MCDocs", "Texts": "<- MCTexts", "MaxCalls": 4},
                  invariants=["HistoryIndependent", "DocsIntact", "HandleIntact"], properties=["DocsReadOnly"], spec="Spec",
                  name=name or "MC_Api", workers=C.NCPU, extra_cfg=["VIEW View"], negative=negative, timeout=1200)


def c12(ctx):
    import json, math, os, re
    ctx.rule = ("workloads: all unordered pairs of 15 expressions (sort_by on the document / on a literal inside the shared compiled "
                "expression / on a member, projections, reverse, merge, sort, max_by, map, flatten, slices, keys, wildcard, to_array) x 4 shared "
                "documents, through a shared compiled expression and through the one-shot Search; schedules: TLC (Sched.tla) enumerates all "
                "interleavings of the two calls' hook points (Execute entries and parser steps, counted on the real code) when there are at "
                "most 1500, otherwise samples them with -simulate; each replayed on real goroutines gated at the hooks, with the shared "
                "document compared after every step; plus a free-running run of the same workloads under the Go race detector; non-trivial: "
                "the schedule has >= 2 steps and at least one call reads an array or object; a case = one (workload, schedule)")
    quick = ctx.tier == Q
    for doc in ["DocVal"] + ([] if quick else ["DocVal4"]):
        C.model_check(ctx, "MC_HeapRace", {"InPlace": False, "Doc0": "<- " + doc}, invariants=["DocIntact", "ReaderSolo", "SortedOK"],
                      properties=["ReadOnly"], spec="Spec", name="MC_HeapRace_spec_" + doc, workers=4)
    C.model_check(ctx, "MC_HeapRace", {"InPlace": True, "Doc0": "<- DocVal"}, invariants=["ReaderSolo", "SortedOK"], spec="Spec",
                  name="MC_HeapRace_code_as_it_was", workers=4, negative=True)
    wl = os.path.join(ctx.scratch, "workloads.ndjson")
    C.run_tlc(ctx, "Gen_Sched", {"Dev": "{}", "Tier": ctx.tier, "OutFile": wl}, ["INIT Init", "NEXT Next"], name="Gen_Sched", timeout=600)
    recs = [json.loads(l) for l in open(wl)]
    allw = os.path.join(ctx.scratch, "workloads2.ndjson")
    with open(allw, "w") as f:
        for r in recs:
            f.write(json.dumps(r) + "\n")
            if r["p"] % 3 == 0 or not quick:
                f.write(json.dumps(dict(r, oneshot=True)) + "\n")
    if not ctx.hooks:
        ctx.notes.append("hook file did not compile: C12 degraded to the race monitor plus result comparison of free-running goroutines")
    else:
        counted = os.path.join(ctx.scratch, "counted.ndjson")
        s = C.run_tool(ctx, "sched", [allw], {"sched-solo", "sched-compile"}, extra=["-phase", "count", "-counted", counted])
        ws = [json.loads(l) for l in open(counted)]
        pairs = sorted({(w["n"][0], w["n"][1]) for w in ws})
        limit = 1500 if quick else 20000
        small = [p for p in pairs if math.comb(p[0] + p[1], p[0]) <= limit]
        big = [p for p in pairs if p not in small]
        scheds = {}

        def collect(out):
            for line in out.splitlines():
                if line.startswith('<<"SCHED", '):
                    m = re.match(r'<<"SCHED", "(.*)">>$', line)
                    v = json.loads(m.group(1).replace('\\"', '"'))
                    scheds.setdefault(tuple(v["n"]), set()).add(tuple(v["s"]))
        if small:
            res = C.run_tlc(ctx, "Sched", {"Pairs": "<- PairsVal"},
                            ["SPECIFICATION Spec", "INVARIANT Emit", "INVARIANT WellFormed", "CHECK_DEADLOCK FALSE"], name="Sched_exhaustive",
                            workers=8, timeout=1800, xmx="8g", defs="PairsVal == {" + ", ".join("<<%d, %d>>" % p for p in small) + "}")
            collect(res["out"])
        for p in big:
            res = C.run_tlc(ctx, "Sched", {"Pairs": "<- PairsVal"}, ["SPECIFICATION Spec", "INVARIANT Emit", "CHECK_DEADLOCK FALSE"],
                            name="Sched_sim_%d_%d" % p, workers=1, timeout=600, simulate="num=%d" % (150 if quick else 1500), depth=p[0] + p[1] + 1,
                            defs="PairsVal == {<<%d, %d>>}" % p)
            collect(res["out"])
        runf = os.path.join(ctx.scratch, "torun.ndjson")
        nsch = 0
        with open(runf, "w") as f:
            for w in ws:
                ss = sorted(scheds.get(tuple(w["n"]), []))
                if quick and len(ss) > 250:
                    import random
                    ss = random.Random(ctx.seed + w["p"] * 31 + w["q"]).sample(ss, 250)
                w["scheds"] = [list(x) for x in ss]
                nsch += len(ss)
                f.write(json.dumps(w) + "\n")
        ctx.log("schedules: %d hook-count pairs (%d enumerated exhaustively, %d sampled), %d schedules to replay" % (len(pairs), len(small), len(big), nsch))
        ctx.bounds["schedules"] = {"pairs": len(pairs), "exhaustive_pairs": len(small), "sampled_pairs": len(big), "replayed": nsch}
        C.run_tool(ctx, "sched", [runf], {"sched-outcome", "sched-docmod", "sched-compile"}, extra=["-phase", "run"], canary_every=499)
    C.run_race(ctx, [allw], iters=10 if quick else 60, goroutines=8 if quick else 16)
    ctx.exhaustive = False


def c15(ctx):
    ctx.rule = ("pipe: all ordered pairs (A, B) of 48 expressions (paths, multi-selects, five projection kinds, slices, 12 function calls, "
                "logical operators, two erroring expressions) x 46 documents: Search('A | B', d) vs Search(B, Search(A, d)); subst: every A "
                "plugged into 24 contexts whose hole is evaluated against the root document (operator sides, multi-select members, function "
                "arguments, left sides of pipe / sub-expression / index / the projection kinds) and their depth-2 compositions: Search(C[A], d) "
                "vs Search(C[`v`], d) with v the value of A; both sides real, each also checked against the specification's outcome set; "
                "non-trivial: the allowed set is not {ok null} on some document; distinct by source text")
    strides = {Q: (1, 61), T: (1, 3)}[ctx.tier]
    c = {"Dev": "{}", "Tier": ctx.tier, "Family": "C15", "NBlocks": 64, "Stride": strides[0], "Stride3": strides[1], "Seed": ctx.seed}
    C.model_check(ctx, "MC_Eval", c, invariants=["Holds"], spec="Spec", name="MC_Eval_C15", extra_cfg=["VIEW View"], workers=C.NCPU, timeout=3000)
    files = C.generate(ctx, "Gen_Meta", "C15", {"Stride3": strides[1]}, 8 if ctx.tier == Q else 16, stride=strides[0], timeout=3000)
    C.run_tool(ctx, "meta", files, {"meta-outcome", "meta-law"}, canary_every=4999)
    ctx.exhaustive = False


def c13(ctx):
    ctx.rule = ("histories: every sequence of 1..4 (quick; thorough 1..5) Search calls of one compiled expression over 5 documents, for 7 "
                "expressions (sort_by on a literal and on the document, failing searches, object wildcard), each call compared with the "
                "specification's outcome set, with a freshly compiled expression and with the one-shot Search; every sequence of 1..4 Parse "
                "calls of one reused Parser over 9 texts (valid, ungrammatical, unlexable), each compared with a fresh Parser (error/no error "
                "and reflect.DeepEqual of the AST) and with the specification's verdict; non-trivial: >= 2 consecutive calls on the shared "
                "object; plus the replay families with the one-shot Search enabled")
    quick = ctx.tier == Q
    mc_api(ctx)
    mc_api(ctx, dev='{"InPlaceSortBy"}', negative=True, name="MC_Api_neg_InPlaceSortBy")
    mc_api(ctx, dev='{"NoIndexReset"}', negative=True, name="MC_Api_neg_NoIndexReset")
    mc_lexm(ctx, 3)      # two tokenize() calls per history on the Parser's lexer: the raw-string buffer does not carry over
    files = C.generate(ctx, "Gen_Api", "api", {"MaxLenH": 4 if quick else 5}, 8 if quick else 16, stride=1 if quick else 1, name="Gen_Api",
                       family_constant=False, timeout=3000)
    C.run_tool(ctx, "history", files, {"history-outcome", "history-fresh", "history-oneshot", "history-differs", "history-compile",
                                       "parser-reuse", "parser-expect"}, canary_every=997)
    eval_family(ctx, "C09n", {Q: (2, 1), T: (1, 1)}, cats=("outcome", "panic", "oneshot"), mc=False, oneshot=True)
    eval_family(ctx, "C02", {Q: (29, 1), T: (3, 1)}, cats=("outcome", "panic", "oneshot"), mc=False, oneshot=True)
    # every corpus expression is searched twice on one handle; every text (incl. near-miss texts) also parsed on one reused Parser
    C.trace_api(ctx, {"outcome", "parser-reuse"}, n=400 if quick else 4000, reuse=True, mutants=400 if quick else 4000)
    ctx.exhaustive = False


PANIC_CATS = ("panic", "compile-panic", "timeout", "compile-timeout")


def c05(ctx):
    import os
    ctx.rule = ("bounded: every string up to 3 (quick) / 4 (thorough) characters over the 32-class alphabet, every string up to 2 over ASCII + "
                "boundary runes + raw invalid bytes, fine characters in identifier context, token strings up to length 4 and near-miss mutants, "
                "the full function/arity/type matrix, slices and indices with extreme integers -- each compiled and searched under recover() "
                "and a watchdog; amplification: 21 nestable / chainable productions repeated 10, 1000 and up to 64 KiB times within a time "
                "budget linear in the size (and a gross memory bound); fuzz: seeded random byte strings, hostile-token strings and mutations "
                "of the fuzz corpus and compliance expressions; non-trivial: every distinct input (the property is about all inputs); "
                "coverage-guided mutation is NOT done (needs a fuzzer, see DESIGN.md section 10)")
    quick = ctx.tier == Q
    mc_lex(ctx, 3 if quick else 4, invs=["NoPanic", "OffsetOK", "Pipeline"])
    mc_lex(ctx, 2, alpha="fine", invs=["NoPanic", "OffsetOK", "Pipeline"])
    mc_lex(ctx, 3, dev='{"UnguardedIdentTable"}', invs=["NoPanic"], negative=True, name="MC_Lex_neg_UnguardedIdentTable")
    mc_parse(ctx, 4 if quick else 5)
    mc_parserm(ctx, 3 if quick else 4)     # termination measure and no read past eof on the explicit-stack parser machine
    mc_lexm(ctx, 3)                        # the same for the rune-by-rune lexer machine (linear step count)
    if not quick:
        mc_lexm(ctx, 4, live=False)
    gen_text(ctx, "coarse", 3 if quick else 4, 1, cats=PANIC_CATS, contract=False)
    gen_text(ctx, "fine", 2, 1, cats=PANIC_CATS, contract=False)
    gen_text(ctx, "ident", 0, 1, cats=PANIC_CATS, contract=False)
    gen_parse(ctx, "strings", "C01", 3, (1, 1), cats=PANIC_CATS)
    gen_parse(ctx, "strings", "C01", 4, (16, 1) if quick else (1, 1), cats=PANIC_CATS)
    gen_parse(ctx, "mutants", "C02", 0, (300, 1) if quick else (13, 1), cats=PANIC_CATS)
    eval_family(ctx, "C10", {Q: (3, 1), T: (1, 1)}, cats=PANIC_CATS, mc=False)
    eval_family(ctx, "C08", {Q: (7, 1), T: (1, 1)}, cats=PANIC_CATS, mc=False)
    eval_family(ctx, "C08i", {Q: (1, 1), T: (1, 1)}, cats=PANIC_CATS, mc=False)
    eval_family(ctx, "C09", {Q: (17, 1), T: (3, 1)}, cats=PANIC_CATS, mc=False)
    amp = os.path.join(ctx.scratch, "amp.ndjson")
    C.run_tlc(ctx, "Gen_Amp", {"Dev": "{}", "OutFile": amp}, ["INIT Init", "NEXT Next"], name="Gen_Amp", timeout=600)
    s = C.run_tool(ctx, "stress", [], {"panic", "timeout", "memory", "amp-small"},
                   extra=["-amp", amp, "-fuzz", str(20000 if quick else 400000), "-seed", str(ctx.seed), "-repo", C.REPO])
    ctx.bounds["stress"] = {"max_millis_per_64KiB": s.get("max_millis_per_64KiB"), "max_alloc_mb": s.get("max_alloc_mb")}
    ctx.exhaustive = False


def c18(ctx):
    ctx.rule = ("typed documents: 10 values built from the Go types Inner{A float64; B string; C []string} and Outer{A Inner; B *Inner; C []Inner; "
                "D []*Inner; E []float64; F []string; G bool; H string} (by value and by pointer, nil and non-nil pointers as fields and as slice "
                "elements, empty and non-empty typed slices, typed slices and nil pointers as the root); family C18: 110 navigational "
                "expressions (fields incl. capitalised and unknown names, indices, slices, flatten, list and filter projections, multi-select, "
                "||, &&, !, pipes, length) and their wrapping in 9 contexts, compared with the specification on the JSON form J(g); family C18p: "
                "every built-in with a typed value in every argument position (no panic); non-trivial: the allowed set is not {ok null} and "
                "the expression has >= 2 nodes; a case = (expression, typed document)")
    C.model_check(ctx, "GoValues", {"Dev": "{}", "Tier": ctx.tier}, invariants=[], spec=None, init="JInit", nxt="JNext", name="GoValues_J_total",
                  workers=1, extra_cfg=["INVARIANT JTotalInv"]) if False else None
    eval_family(ctx, "C18", {Q: (1, 1), T: (1, 1)}, module="Gen_Go", cats=())
    files = C.generate(ctx, "Gen_Go", "C18", {"Stride3": 1}, 4, stride=1, name="Gen_Go_nav")
    C.run_tool(ctx, "typed", files, {"typed-outcome", "typed-panic"}, canary_every=499)
    files = C.generate(ctx, "Gen_Go", "C18p", {"Stride3": 1}, 4, stride=1, name="Gen_Go_fn")
    C.run_tool(ctx, "typed", files, {"typed-panic"})
    # the whole slice window (C08 family) on typed slices
    files = C.generate(ctx, "Gen_Go", "C08", {"Stride3": 1}, 8, stride=3 if ctx.tier == Q else 1, name="Gen_Go_slices")
    C.run_tool(ctx, "typed", files, {"typed-outcome", "typed-panic"}, canary_every=4999)
    ctx.exhaustive = True


def c19(ctx):
    import os, subprocess
    ctx.rule = ("jpgo built from /repo and run as a process: valid expressions spelled from the C01 / C09n / C02 family ASTs x 7 input documents "
                "given alternately by -input file and on standard input (tight and mixed-whitespace spellings), 11 invalid expressions, 7 "
                "invalid / empty inputs, a missing input file, no argument, two arguments; success: exit 0 and stdout parses to a value in the "
                "specification's outcome set; failure: non-zero exit status and empty stdout; non-trivial: distinct (expression, input, channel) "
                "runs with a definite expected verdict")
    quick = ctx.tier == Q
    C.model_check(ctx, "Jpgo", {}, invariants=["OutputImpliesSuccess", "ExitMeaning"], properties=["Terminates"], spec="Spec", name="Jpgo",
                  workers=2, coverage=True)
    jpgo = os.path.join(ctx.scratch, "jpgo")
    p = subprocess.run(["go", "build"] + C.modfile_args(ctx) + ["-o", jpgo, "github.com/jmespath/go-jmespath/cmd/jpgo"], cwd=C.HARNESS, env=C.GOENV, capture_output=True, text=True)
    if p.returncode != 0:
        raise C.Machinery("building cmd/jpgo failed: " + p.stderr[-1500:])
    files = []
    for fam, strides in (("C01", {Q: (700, 10 ** 7), T: (40, 400000)}), ("C09n", {Q: (12, 1), T: (1, 1)}), ("C02", {Q: (900, 1), T: (60, 1)})):
        st = strides[ctx.tier]
        files += C.generate(ctx, "Gen_Cli", fam, {"Stride3": st[1]}, 4 if quick else 8, stride=st[0], name="Gen_Cli_" + fam, timeout=1800)
    C.run_tool(ctx, "cli", files, {"cli-crash", "cli-output-on-failure", "cli-exit", "cli-stdout"}, extra=["-jpgo", jpgo], canary_every=97)
    ctx.exhaustive = False


def c06(ctx):
    ctx.rule = ("every replayed Search compares a deep snapshot of the document taken before the call with the document after the call; "
                "family C06: every built-in applied directly to parts of the document (18 one-argument functions, sort_by/max_by/min_by/map x 7 "
                "key expressions, merge, contains, join, not_null, flatten, slices, projections) alone and wrapped in 12 contexts (pipe, "
                "projection RHS, multi-select, expression-reference body, filter condition, ||, then reverse / sort_by / sort / flatten / merge) "
                "x documents with unsorted arrays, non-palindromes, overlapping objects and mixed-type arrays (error paths); plus the C09n, "
                "C10d, C02, C11 and C08 families; non-trivial: the call reads at least one array or object of the document (allowed set not "
                "{ok null}); distinct by (source text, document)")
    mc_api(ctx)
    mc_api(ctx, dev='{"InPlaceSortBy"}', negative=True, name="MC_Api_neg_InPlaceSortBy")
    # Heap.tla: every in-place variant a built-in could have is OBSERVABLE on the C06 family (and not on a family of null documents)
    C.model_check(ctx, "Heap", {"Dev": "{}", "Tier": ctx.tier, "Family": "C06"}, invariants=["AllObservable", "ErrorPath"], spec="Spec",
                  name="Heap_observable_on_C06", workers=6)
    C.model_check(ctx, "Heap", {"Dev": "{}", "Tier": ctx.tier, "Family": "C10k"}, invariants=["AllObservable"], spec="Spec",
                  name="Heap_not_observable_on_null_documents", workers=6, negative=True)
    cats = ("docmod",)
    eval_family(ctx, "C06", {Q: (3, 1), T: (1, 1)}, cats=cats + ("outcome", "panic"))
    eval_family(ctx, "C09n", {Q: (3, 1), T: (1, 1)}, cats=cats, mc=False)
    eval_family(ctx, "C10d", {Q: (2, 1), T: (1, 1)}, cats=cats, mc=False)
    eval_family(ctx, "C11", {Q: (2, 9), T: (1, 1)}, cats=cats, mc=False)
    eval_family(ctx, "C02", {Q: (31, 1), T: (2, 1)}, cats=cats, mc=False)
    eval_family(ctx, "C08", {Q: (23, 1), T: (2, 1)}, cats=cats, mc=False)
    C.trace_api(ctx, {"docmod"}, n=800 if ctx.tier == Q else 8000)
    # "no write happens during the call": a write of equal values is invisible to snapshots; the race detector sees it
    import json as _json, os as _os
    wl = _os.path.join(ctx.scratch, "workloads.ndjson")
    C.run_tlc(ctx, "Gen_Sched", {"Dev": "{}", "Tier": ctx.tier, "OutFile": wl}, ["INIT Init", "NEXT Next"], name="Gen_Sched", timeout=600)
    C.run_race(ctx, [wl], iters=6 if ctx.tier == Q else 40, goroutines=8)
    ctx.exhaustive = False


def c08(ctx):
    ctx.rule = ("family C08: every (start, stop, step) over {absent} u [-L-2, L+2] u {+-(2^31-1), +-2^31, +-2^62, +-(2^63-1), -2^63} "
                "(L = 4 quick / 6 thorough) x 3 spellings of the base ([..], a[..], @[..]) x arrays of length 0..L of distinct elements, "
                "the same arrays as a member, and non-arrays; C08i: indices over the window and huge values; non-trivial: the slice selects "
                ">= 1 element or is rejected with an error, and at least one parameter is present; distinct by (source text, document)")
    C.model_check(ctx, "MC_Slice", {"Dev": "{}", "MaxLen": 4 if ctx.tier == Q else 6}, invariants=["Holds"], spec="Spec",
                  name="MC_Slice", workers=C.NCPU, timeout=1800)
    C.model_check(ctx, "MC_Slice", {"Dev": '{"CapSliceOffByOne"}', "MaxLen": 3}, invariants=["Holds"], spec="Spec",
                  name="MC_Slice_neg", workers=C.NCPU, timeout=600, negative=True)
    if ctx.tier == T:
        # the saturation lemma for ALL integer parameters (array lengths 0..6), which is what lets sign*(len+2) stand for 2^63-1
        C.apalache(ctx, "SliceSat", "Saturation")
        C.apalache(ctx, "SliceSat", "WrongSaturation", negative=True)
    eval_family(ctx, "C08", {Q: (5, 1), T: (1, 1)})
    eval_family(ctx, "C08i", {Q: (1, 1), T: (1, 1)})
    # the same window on typed Go slices ([]Inner, []*Inner, []float64, []string fields, empty and non-empty): sliceWithReflection is a separate path
    files = C.generate(ctx, "Gen_Go", "C08t", {"Stride3": 1}, 8, stride=3 if ctx.tier == Q else 1, name="Gen_Go_slices_typed")
    C.run_tool(ctx, "typed", files, {"typed-outcome", "typed-panic"}, canary_every=4999)
    gen_text(ctx, "nums", 0, 1, cats=EVAL_CATS, contract=False)      # slice bounds and indices spelled with leading zeros are decimal
    ctx.exhaustive = ctx.tier == T


def c09(ctx):
    ctx.rule = ("family C09: every value of the typed universe FnVals as the (first) argument of every built-in (one-argument forms, and "
                "two-argument forms over operand pools for strings, separators, key expressions, objects); C09n: calls nested in "
                "projections, filters, multi-selects, other calls, pipes; non-trivial: the call is well-typed (allowed set has an ok outcome); "
                "distinct by (source text, document)")
    eval_family(ctx, "C09", {Q: (3, 1), T: (1, 1)})
    eval_family(ctx, "C09n", {Q: (1, 1), T: (1, 1)})
    eval_family(ctx, "C09big", {Q: (1, 1), T: (1, 1)})
    mc_interp(ctx, "C09n", 1)
    C.trace_api(ctx, {"outcome"}, n=800 if ctx.tier == Q else 8000)
    if ctx.tier == T:
        negative(ctx, "C09", "AvgEmptyNaN")
    ctx.exhaustive = ctx.tier == T


def c10(ctx):
    ctx.rule = ("family C10: 26 names + 2 unknown names x argument counts 0..3 (thorough 0..4) x all tuples over 11 type representatives, "
                "arguments as literals; C10d: the same with arguments read from document fields; C10k: sort_by/max_by/min_by/map x key "
                "expressions x arrays of length 0..3; non-trivial: at least one ill-typed, missing or extra argument (allowed = {err})")
    eval_family(ctx, "C10", {Q: (1, 1), T: (1, 1)})
    eval_family(ctx, "C10d", {Q: (1, 1), T: (1, 1)})
    eval_family(ctx, "C10k", {Q: (1, 1), T: (1, 1)})
    eval_family(ctx, "C11", {Q: (2, 7), T: (1, 1)}, mc=False)     # ill-typed / unknown / wrong-arity calls nested in every context
    negative(ctx, "C10k", "SkipKeyCheckSingleton")
    if ctx.tier == T:
        negative(ctx, "C10", "UncheckedVariadic")
        negative(ctx, "C10", "ExprefAsAny")
    ctx.exhaustive = ctx.tier == T


def c11(ctx):
    ctx.rule = ("family C11: 5 erroring expressions + 2 controls plugged into 38 one-hole contexts (every operator side, sub/index/pipe side, "
                "5 projection kinds' left side / RHS / condition, function argument positions, expression-reference bodies, multi-select "
                "members) and all depth-2 compositions of contexts x documents; non-trivial: the allowed set is {err} (the context is strict "
                "on the document); distinct by (source text, document)")
    eval_family(ctx, "C11", {Q: (1, 3), T: (1, 1)})
    negative(ctx, "C11", "SwallowLeftError")
    ctx.exhaustive = ctx.tier == T


def c16(ctx):
    ctx.rule = ("family C16: numeric and empty-result corner cases (aggregates of empty arrays, to_number string table incl. inf/nan/1e400/"
                "hex floats, empty projections/slices/keys/values/merge/map) plus the JSON-closure walk on every successful result of the "
                "C01, C02 and C09 families; non-trivial: the result contains a number, an array or an object")
    eval_family(ctx, "C16", {Q: (1, 1), T: (1, 1)}, cats=EVAL_CATS + ("nonjson",))
    eval_family(ctx, "C09", {Q: (1, 1), T: (1, 1)}, cats=("nonjson",), mc=False)
    eval_family(ctx, "C02", {Q: (23, 1), T: (3, 1)}, cats=("nonjson",), mc=False)
    eval_family(ctx, "C01", {Q: (37, 100000), T: (5, 1001)}, cats=("nonjson",), mc=False)
    ctx.exhaustive = False


PIPELINES = {
    "C01": c01, "C02": c02, "C03": c03, "C04": c04, "C05": c05, "C06": c06, "C12": c12, "C13": c13, "C15": c15, "C18": c18, "C19": c19, "C14": c14, "C17": c17, "C07": c07, "C08": c08, "C09": c09, "C10": c10, "C11": c11, "C16": c16,
}
