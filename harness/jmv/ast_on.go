//go:build verif

package main

import (
	jmespath "github.com/jmespath/go-jmespath"
)

var cmpNames = map[string]string{"tEQ": "eq", "tNE": "ne", "tLT": "lt", "tLTE": "lte", "tGT": "gt", "tGTE": "gte"}

// specAST converts the library's canonical AST rendering (verif hook) into the specification's encoding.
func specAST(v interface{}) interface{} {
	a := v.([]interface{})
	kind := a[0].(string)
	kids := func(xs []interface{}) []interface{} {
		out := []interface{}{}
		for _, x := range xs {
			out = append(out, specAST(x))
		}
		return out
	}
	switch kind {
	case "Field":
		return []interface{}{kind, stringToCps(a[1].(string))}
	case "Index":
		return []interface{}{kind, a[1]}
	case "Literal":
		return []interface{}{kind, encodeValue(a[1])}
	case "Comparator":
		return []interface{}{kind, cmpNames[a[1].(string)], specAST(a[2]), specAST(a[3])}
	case "FunctionExpression":
		return []interface{}{kind, stringToCps(a[1].(string)), kids(a[2].([]interface{}))}
	case "MultiSelectList", "MultiSelectHash":
		return []interface{}{kind, kids(a[1].([]interface{}))}
	case "KeyValPair":
		return []interface{}{kind, stringToCps(a[1].(string)), specAST(a[2])}
	case "Slice":
		parts := []interface{}{}
		for _, p := range a[1].([]interface{}) {
			if p == nil {
				parts = append(parts, []interface{}{"none"})
			} else {
				parts = append(parts, []interface{}{"int", p})
			}
		}
		return []interface{}{kind, parts}
	}
	return append([]interface{}{kind}, kids(a[1:])...)
}

func realAST(jp *jmespath.JMESPath) interface{} { return specAST(jp.VerifAST()) }

// nodeAST: the AST returned by Parser.Parse in the specification's encoding.
func nodeAST(n jmespath.ASTNode) interface{} { return specAST(jmespath.VerifAST(n)) }

var tokNames = map[string]string{"tStar": "star", "tDot": "dot", "tFilter": "filter", "tFlatten": "flatten", "tLparen": "lparen", "tRparen": "rparen",
	"tLbracket": "lbracket", "tRbracket": "rbracket", "tLbrace": "lbrace", "tRbrace": "rbrace", "tOr": "or", "tPipe": "pipe", "tNumber": "number",
	"tUnquotedIdentifier": "uid", "tQuotedIdentifier": "qid", "tComma": "comma", "tColon": "colon", "tLT": "lt", "tLTE": "lte", "tGT": "gt", "tGTE": "gte",
	"tEQ": "eq", "tNE": "ne", "tJSONLiteral": "jsonlit", "tStringLiteral": "strlit", "tCurrent": "current", "tExpref": "expref", "tAnd": "and", "tNot": "not",
	"tEOF": "eof", "tUnknown": "unknown"}

var valuedTok = map[string]bool{"uid": true, "qid": true, "number": true, "jsonlit": true, "strlit": true}

// realTokens: the lexer's token stream in the specification's encoding <<type, value(code points), position, length>>;
// nil when the lexer fails.
func realTokens(text string) interface{} {
	toks, err := jmespath.VerifTokenize(text)
	if err != nil {
		return []interface{}{}
	}
	out := []interface{}{}
	for _, t := range toks {
		name := tokNames[t.Type]
		var val interface{} = []interface{}{}
		if valuedTok[name] {
			val = bytesToCps(t.Value)
		}
		out = append(out, []interface{}{name, val, t.Position, t.Length})
	}
	return out
}
