------------------------------ MODULE GoValues ------------------------------
(* Documents made of Go structs, pointers to structs and typed slices (C18), and their JSON abstraction J.

   Typed values:   <<"gstruct", T, <<f1, v1>>, ...>>   struct of type T with its exported fields in order
                   <<"gptr", T, v>> / <<"gnil", T>>    pointer to a struct of type T, or the nil pointer
                   <<"gslice", elem, seq>>             non-nil typed slice ([]T, []*T, []string, []float64)
                   <<"num", p, q>>, <<"str", cps>>, <<"bool", b>>   float64 / string / bool leaves
   The two struct types of the universe (the harness declares the same Go types):
       Inner { A float64; B string; C []string; Él string }
       Outer { A Inner; B *Inner; C []Inner; D []*Inner; E []float64; F []string; G bool; H string }
       Emb { Inner; Z float64 }    EmbP { *Inner; Z float64 }        (embedding: promoted fields)
   A field name in an expression is matched after upper-casing its first letter, so the JSON form of a
   struct has the lower-cased names as keys:  J(struct) = object, J(nil pointer) = null, J(pointer) = J(pointee),
   J(typed slice) = array.  The property: for navigational expressions e,  Search(e, g)  normalised through
   encoding/json is in  Outcomes(e, J(g)). *)
EXTENDS Universe

GStruct(t, fs) == <<"gstruct", t, fs>>
GPtr(t, v) == <<"gptr", t, v>>
GNil(t) == <<"gnil", t>>
GSlice(el, xs) == <<"gslice", el, xs>>
LowerFirst(name) == IF name # <<>> /\ name[1] \in 65..90 THEN <<name[1] + 32>> \o Tail(name)
                    ELSE IF name # <<>> /\ name[1] = 201 THEN <<233>> \o Tail(name)      \* E-acute: the one non-ASCII initial of the universe
                    ELSE name
RECURSIVE J(_)
J(g) == CASE g[1] = "gstruct" -> Obj({<<LowerFirst(g[3][i][1]), J(g[3][i][2])>> : i \in 1..Len(g[3])})
          [] g[1] = "gptr" -> J(g[3])
          [] g[1] = "gnil" -> Null
          [] g[1] = "gslice" -> Arr([i \in 1..Len(g[3]) |-> J(g[3][i])])
          [] OTHER -> g

(* the field rule: an identifier selects the struct field whose name is the identifier with its first letter
   upper-cased, so `a` and `A` select the same field; on the JSON form (lower-cased keys) that is the
   expression with the first letter of every field identifier lower-cased (keys of a multi-select hash are
   output names, not lookups, and stay as written) *)
RECURSIVE LowerFields(_)
LowerFields(e) == IF e[1] = "Field" THEN Field(LowerFirst(e[2]))
                  ELSE LET ks == Kids(e) IN IF ks = <<>> THEN e ELSE WithKids(e, [i \in 1..Len(ks) |-> LowerFields(ks[i])])

fldA == <<65>>  fldB == <<66>>  fldC == <<67>>  fldD == <<68>>  fldE == <<69>>  fldF == <<70>>  fldG == <<71>>  fldH == <<72>>
fldEl == <<201, 108>>        \* a field whose name starts with a non-ASCII letter (upper-case E-acute, then l)
Inner(a, b, c) == GStruct("Inner", << <<fldA, a>>, <<fldB, b>>, <<fldC, GSlice("string", c)>>, <<fldEl, b>> >>)
Outer(a, b, c, d, e, f, gg, h) == GStruct("Outer", << <<fldA, a>>, <<fldB, b>>, <<fldC, GSlice("Inner", c)>>, <<fldD, GSlice("*Inner", d)>>,
                                                      <<fldE, GSlice("float64", e)>>, <<fldF, GSlice("string", f)>>, <<fldG, Bool(gg)>>, <<fldH, h>> >>)
(* struct embedding: Emb { Inner; Z float64 } and EmbP { *Inner; Z float64 } -- the fields of the embedded struct are promoted, so the
   struct (like its encoding/json form) has the fields A, B, C, Él and Z *)
fldZ == <<90>>
Emb(t, a, b, c, z) == GStruct(t, << <<fldA, a>>, <<fldB, b>>, <<fldC, GSlice("string", c)>>, <<fldEl, b>>, <<fldZ, z>> >>)
In1 == Inner(I(1), S(<<120>>), <<S(cA), S(cB)>>)
In2 == Inner(I(2), S(<<121>>), <<>>)
In3 == Inner(Half, S(cEmpty), <<S(cAB)>>)
GoDocs == <<
  Outer(In1, GPtr("Inner", In2), <<In1, In2, In3>>, <<GPtr("Inner", In3), GNil("Inner"), GPtr("Inner", In1)>>, <<I(3), I(1), I(2)>>, <<S(cB), S(cA)>>, TRUE, S(cAB)),
  Outer(In3, GNil("Inner"), <<>>, <<>>, <<>>, <<>>, FALSE, S(cEmpty)),
  Outer(In2, GPtr("Inner", In1), <<In2>>, <<GNil("Inner")>>, <<Half>>, <<S(cEmpty)>>, TRUE, S(cEacute)),
  GPtr("Outer", Outer(In1, GPtr("Inner", In1), <<In3, In1>>, <<GPtr("Inner", In2), GPtr("Inner", In2)>>, <<I(2), I(2)>>, <<S(cA)>>, FALSE, S(cA))),
  GSlice("Inner", <<In1, In2>>), GSlice("*Inner", <<GPtr("Inner", In1), GNil("Inner")>>), GSlice("float64", <<I(1), I(2), I(3)>>), GSlice("string", <<S(cA)>>),
  GNil("Outer"), In1,
  Emb("Emb", I(1), S(<<120>>), <<S(cA)>>, I(7)), GPtr("EmbP", Emb("EmbP", I(2), S(cEmpty), <<>>, I(8))),
  GSlice("Emb", <<Emb("Emb", I(1), S(cA), <<S(cB)>>, I(1)), Emb("Emb", Half, S(cB), <<>>, I(2))>>),
  GSlice("Outer", <<Outer(In1, GNil("Inner"), <<In2>>, <<GPtr("Inner", In3), GNil("Inner")>>, <<I(1)>>, <<>>, TRUE, S(cA)),
                    Outer(In2, GPtr("Inner", In1), <<>>, <<GNil("Inner"), GPtr("Inner", In1), GNil("Inner")>>, <<>>, <<S(cB)>>, FALSE, S(cB))>>) >>
(* J is total on the universe and yields JSON *)
JTotal == \A i \in 1..Len(GoDocs) : IsJSON(J(GoDocs[i]))
=============================================================================
