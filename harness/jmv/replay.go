package main

// jmv replay: run TLC-generated cases (source text, documents, allowed outcome sets) against the
// real public API and report every observation that is outside its allowed set.

import (
	"bufio"
	"encoding/json"
	"flag"
	"fmt"
	"hash/fnv"
	"os"
	"reflect"
	"sort"
	"strconv"
	"strings"
	"sync/atomic"
	"time"

	jmespath "github.com/jmespath/go-jmespath"
)

type caseRec struct {
	K       string          `json:"k"`
	Fam     string          `json:"fam"`
	ID      int             `json:"id"`
	N       int             `json:"n"`
	Docs    []interface{}   `json:"docs"`
	Srcs    [][]interface{} `json:"srcs"`
	Allowed [][]interface{} `json:"allowed"`
	Compile string          `json:"compile"` // "" / "ok": must compile; "err": must be rejected; "any"
	Inexact bool            `json:"inexact"`
	NT      []bool          `json:"nt"` // per document: non-trivial by the family's rule (optional)
	DocIdx  []int           `json:"docidx"`
	Tag     string          `json:"tag"`
	Offset  *int            `json:"offset"`
	ErrKind string          `json:"errkind"`
}

type violation struct {
	Cat      string      `json:"cat"`
	Fam      string      `json:"fam"`
	ID       int         `json:"id"`
	Src      string      `json:"src"`
	SrcCps   interface{} `json:"src_cps"`
	Spelling int         `json:"spelling"`
	Doc      interface{} `json:"doc,omitempty"`
	Allowed  interface{} `json:"allowed,omitempty"`
	Observed string      `json:"observed"`
	Canary   bool        `json:"canary,omitempty"`
	Tag      string      `json:"tag,omitempty"`
}

type replaySummary struct {
	Cases        int            `json:"cases"`
	Evaluations  int            `json:"evaluations"`
	Nontrivial   int            `json:"distinct_nontrivial"`
	Unspec       int            `json:"unspecified_skipped"`
	Counts       map[string]int `json:"violation_counts"`
	Violations   []violation    `json:"violations"`
	Samples      []interface{}  `json:"samples"`
	CanariesIn   int            `json:"canaries_injected"`
	CanariesHit  int            `json:"canaries_caught"`
	WallS        float64        `json:"wall_s"`
	Incomplete   bool           `json:"incomplete"`
	Drift        map[string]int `json:"drift"`
	DriftSamples []string       `json:"drift_samples"`
}

const watchdog = 20 * time.Second

// guarded runs f under recover and a watchdog.
func guarded(f func() (interface{}, error)) Obs {
	ch := make(chan Obs, 1)
	go func() {
		defer func() {
			if r := recover(); r != nil {
				ch <- Obs{Kind: "panic", Err: fmt.Sprint(r)}
			}
		}()
		v, err := f()
		if err != nil {
			_, syn := err.(jmespath.SyntaxError)
			ch <- Obs{Kind: "err", Err: err.Error(), Syntax: syn}
			return
		}
		ch <- Obs{Kind: "ok", Value: v}
	}()
	select {
	case o := <-ch:
		return o
	case <-time.After(watchdog):
		return Obs{Kind: "timeout", Err: "no return within watchdog"}
	}
}

// fast path without goroutine for the bulk of calls: still under recover; the watchdog is applied by
// running whole batches in a goroutine (see runBatch).
func direct(f func() (interface{}, error)) (o Obs) {
	defer func() {
		if r := recover(); r != nil {
			o = Obs{Kind: "panic", Err: fmt.Sprint(r)}
		}
	}()
	v, err := f()
	if err != nil {
		_, syn := err.(jmespath.SyntaxError)
		return Obs{Kind: "err", Err: err.Error(), Syntax: syn}
	}
	return Obs{Kind: "ok", Value: v}
}

func compileObs(src string) (*jmespath.JMESPath, error, Obs) {
	var jp *jmespath.JMESPath
	var cerr error
	o := direct(func() (interface{}, error) {
		jp, cerr = jmespath.Compile(src)
		return nil, cerr
	})
	o.Compile = true
	return jp, cerr, o
}

// checkCompileContract: the C17 contract of a failed / successful Compile and of MustCompile.
// Returns a list of (category, observed) problems.
func checkCompileContract(src string, jp *jmespath.JMESPath, cerr error) [][2]string {
	var bad [][2]string
	if se, ok := cerr.(jmespath.SyntaxError); ok {
		if se.Expression != src {
			bad = append(bad, [2]string{"synerr-expression", fmt.Sprintf("Expression=%q", se.Expression)})
		}
		if se.Offset < 0 || se.Offset > len(src) {
			bad = append(bad, [2]string{"synerr-offset", fmt.Sprintf("Offset=%d len=%d", se.Offset, len(src))})
		} else {
			hl := direct(func() (interface{}, error) { return se.HighlightLocation(), nil })
			want := src + "\n" + strings.Repeat(" ", se.Offset) + "^"
			if hl.Kind != "ok" || hl.Value.(string) != want {
				bad = append(bad, [2]string{"synerr-highlight", hl.String()})
			}
		}
	}
	// MustCompile panics exactly when Compile fails, naming the expression
	var mjp *jmespath.JMESPath
	m := direct(func() (interface{}, error) { mjp = jmespath.MustCompile(src); return nil, nil })
	if cerr != nil {
		if m.Kind != "panic" {
			bad = append(bad, [2]string{"mustcompile", "Compile failed but MustCompile returned: " + m.String()})
		} else if !strings.Contains(m.Err, src) && !strings.Contains(m.Err, strconv.Quote(src)) {
			bad = append(bad, [2]string{"mustcompile", "panic text does not name the expression: " + m.Err})
		}
	} else {
		if m.Kind != "ok" || mjp == nil {
			bad = append(bad, [2]string{"mustcompile", "Compile succeeded but MustCompile: " + m.String()})
		} else {
			a := direct(func() (interface{}, error) { return jp.Search(nil) })
			b := direct(func() (interface{}, error) { return mjp.Search(nil) })
			if a.Kind == "panic" || a.Kind != b.Kind || (a.Kind == "ok" && !reflect.DeepEqual(a.Value, b.Value)) {
				bad = append(bad, [2]string{"mustcompile", "handles differ on Search(nil): " + a.String() + " vs " + b.String()})
			}
		}
	}
	return bad
}

type replayer struct {
	progress    int64        // number of API calls finished (atomic)
	cur         atomic.Value // description of the call in flight (violation template)
	sum         replaySummary
	seen        map[uint64]struct{}
	perSig      map[uint64]int
	maxKeep     int
	canEvery    int
	docCanEvery int
	contract    bool
	calls       int
	oneshot     bool
}

func (r *replayer) add(v violation) {
	if v.Canary {
		r.sum.CanariesHit++
		return
	}
	r.sum.Counts[v.Cat]++
	// keep at most 2 per (category, family, expression) so that many different failing expressions are kept
	k := hashKey(v.Cat, v.Fam, fmt.Sprint(v.ID))
	if r.perSig[k] < 2 && len(r.sum.Violations) < r.maxKeep {
		r.perSig[k]++
		r.sum.Violations = append(r.sum.Violations, v)
	}
}

func hashKey(parts ...string) uint64 {
	h := fnv.New64a()
	for _, p := range parts {
		h.Write([]byte(p))
		h.Write([]byte{0})
	}
	return h.Sum64()
}

func isTrivialAllowed(allowed []interface{}) bool {
	if len(allowed) != 1 {
		return false
	}
	a := allowed[0].([]interface{})
	if a[0].(string) != "ok" {
		return false
	}
	return a[1].([]interface{})[0].(string) == "null"
}

func (r *replayer) runCase(fam string, c *caseRec, docs []interface{}, docsTagged []interface{}) {
	r.sum.Cases++
	for si, cps := range c.Srcs {
		src := cpsToString(cps)
		r.cur.Store(violation{Cat: "compile-timeout", Fam: fam, ID: c.ID, Src: src, SrcCps: cps, Spelling: si, Observed: "no return within watchdog", Tag: c.Tag})
		jp, cerr, co := compileObs(src)
		atomic.AddInt64(&r.progress, 1)
		r.sum.Evaluations++
		want := c.Compile
		if want == "" {
			want = "ok"
		}
		mk := func(cat string, di int, allowed interface{}, obs string) violation {
			v := violation{Cat: cat, Fam: fam, ID: c.ID, Src: src, SrcCps: cps, Spelling: si, Allowed: allowed, Observed: obs, Tag: c.Tag}
			if di >= 0 {
				v.Doc = docsTagged[di]
			}
			return v
		}
		if co.Kind == "panic" || co.Kind == "timeout" {
			r.add(mk("compile-"+co.Kind, -1, want, co.String()))
			continue
		}
		if (jp == nil) != (co.Kind == "err") {
			r.add(mk("compile-inconsistent", -1, want, fmt.Sprintf("jp==nil:%v %s", jp == nil, co.String())))
			continue
		}
		if r.contract {
			for _, b := range checkCompileContract(src, jp, cerr) {
				r.add(mk(b[0], -1, want, b[1]))
			}
			r.sum.Evaluations += 2
			if se, ok := cerr.(jmespath.SyntaxError); ok && c.Offset != nil && *c.Offset >= 0 && se.Offset != *c.Offset {
				r.sum.Drift["offset"]++
				if len(r.sum.DriftSamples) < 10 {
					r.sum.DriftSamples = append(r.sum.DriftSamples, fmt.Sprintf("%q: offset %d, specification predicts %d", src, se.Offset, *c.Offset))
				}
			}
			if cerr != nil && c.ErrKind != "" {
				_, isSyn := cerr.(jmespath.SyntaxError)
				if isSyn != (c.ErrKind == "syntax") {
					r.sum.Drift["errkind"]++
					if len(r.sum.DriftSamples) < 10 {
						r.sum.DriftSamples = append(r.sum.DriftSamples, fmt.Sprintf("%q: error %T, specification predicts %s", src, cerr, c.ErrKind))
					}
				}
			}
		}
		if want == "ok" && co.Kind != "ok" {
			r.add(mk("compile-rejected", -1, want, co.String()))
			continue
		}
		if si == 0 && c.N >= 2 && (want == "err" || len(c.Allowed) == 0) {
			k := hashKey(src, "compile")
			if _, dup := r.seen[k]; !dup {
				r.seen[k] = struct{}{}
				r.sum.Nontrivial++
			}
		}
		if want == "err" {
			if co.Kind != "err" {
				r.add(mk("compile-accepted", -1, want, co.String()))
				// an expression that should not have compiled: it must at least not misbehave when searched (C04, C05)
				for di := range docs {
					doc := docs[di]
					r.cur.Store(mk("timeout", di, nil, "no return within watchdog"))
					o := direct(func() (interface{}, error) { return jp.Search(doc) })
					atomic.AddInt64(&r.progress, 1)
					r.sum.Evaluations++
					if o.Kind == "panic" {
						r.add(mk("panic", di, []interface{}{[]interface{}{"unspec"}}, o.String()))
					}
				}
			}
			continue
		}
		if co.Kind != "ok" {
			continue // want == "any"
		}
		idxs := c.DocIdx
		if idxs == nil {
			idxs = make([]int, len(c.Allowed))
			for i := range idxs {
				idxs[i] = i
			}
		}
		for ai, di := range idxs {
			doc := docs[di]
			snap := deepCopy(doc)
			snapCap := snapshotCap(doc)
			r.cur.Store(mk("timeout", di, c.Allowed[ai], "no return within watchdog"))
			o := direct(func() (interface{}, error) { return jp.Search(doc) })
			atomic.AddInt64(&r.progress, 1)
			r.sum.Evaluations++
			r.calls++
			allowed := c.Allowed[ai]
			canary := false
			if r.canEvery > 0 && r.calls%r.canEvery == 0 && o.Kind == "ok" && !strings.Contains(mustJSON(allowed), "unspec") {
				// canary: corrupt the observation; the comparator must notice
				o = Obs{Kind: "ok", Value: "☃canary"}
				canary = true
				r.sum.CanariesIn++
			}
			member, unspec := matchOutcome(o, allowed, c.Inexact)
			if unspec {
				r.sum.Unspec++
			}
			if !member {
				v := mk("outcome", di, allowed, o.String())
				if o.Kind == "panic" {
					v.Cat = "panic"
				}
				v.Canary = canary
				r.add(v)
			}
			if canary {
				continue
			}
			docCanary := false
			if r.docCanEvery > 0 && r.calls%r.docCanEvery == 0 && reflect.DeepEqual(snap, doc) {
				// canary: write to the document behind the library's back; the snapshot comparison must notice
				if m, ok := doc.(map[string]interface{}); ok {
					m["☃canary"] = true
					docCanary = true
				} else if a, ok := doc.([]interface{}); ok && len(a) >= 2 && !reflect.DeepEqual(a[0], a[1]) {
					a[0], a[1] = a[1], a[0]
					docCanary = true
				}
				if docCanary {
					r.sum.CanariesIn++
				}
			}
			if reflect.DeepEqual(snap, doc) && !docCanary && !reflect.DeepEqual(snapCap, snapshotCap(doc)) {
				r.add(mk("docmod", di, allowed, "the call wrote into the spare capacity of an array of the document (beyond its length)"))
				docs[di] = snap
			}
			if !reflect.DeepEqual(snap, doc) {
				v := mk("docmod", di, allowed, "document after call: "+mustJSON(doc))
				v.Canary = docCanary
				r.add(v)
				docs[di] = snap // restore for the following cases
			}
			if o.Kind == "ok" {
				if ok, why := jsonClosed(o.Value); !ok {
					r.add(mk("nonjson", di, allowed, why))
				}
			}
			if r.oneshot && si == 0 {
				o2 := direct(func() (interface{}, error) { return jmespath.Search(src, doc) })
				r.sum.Evaluations++
				m2, _ := matchOutcome(o2, allowed, c.Inexact)
				if !m2 {
					r.add(mk("oneshot", di, allowed, o2.String()))
				}
			}
			if si == 0 && !unspec {
				nt := false
				if c.NT != nil {
					nt = c.NT[ai]
				} else {
					nt = c.N >= 2 && !isTrivialAllowed(allowed)
				}
				if nt {
					k := hashKey(src, fmt.Sprint(di))
					if _, dup := r.seen[k]; !dup {
						r.seen[k] = struct{}{}
						r.sum.Nontrivial++
					}
				}
			}
			if len(r.sum.Samples) < 5 && si == 0 && c.N >= 3 && !isTrivialAllowed(allowed) && r.calls%97 == 0 {
				r.sum.Samples = append(r.sum.Samples, map[string]interface{}{
					"expression": src, "document": json.RawMessage(mustJSON(doc)), "allowed": allowed, "observed": o.String()})
			}
		}
	}
}

func mustJSON(v interface{}) string {
	b, err := json.Marshal(v)
	if err != nil {
		return fmt.Sprintf("%#v", v)
	}
	return string(b)
}

func cmdReplay(args []string) int {
	fs := flag.NewFlagSet("replay", flag.ExitOnError)
	out := fs.String("out", "", "summary output file (JSON)")
	keep := fs.Int("keep", 3000, "max violations to keep in detail")
	canEvery := fs.Int("canary-every", 0, "inject a corrupted observation every N search calls")
	oneshot := fs.Bool("oneshot", false, "also run the one-shot Search for the first spelling")
	docCan := fs.Int("doc-canary-every", 0, "write to the document after every N-th search call (the snapshot comparison must notice)")
	contract := fs.Bool("contract", false, "check the Compile / SyntaxError / MustCompile contract (C17)")
	fs.Parse(args)
	start := time.Now()
	r := &replayer{seen: map[uint64]struct{}{}, perSig: map[uint64]int{}, maxKeep: *keep, canEvery: *canEvery, docCanEvery: *docCan, oneshot: *oneshot, contract: *contract}
	r.sum.Counts = map[string]int{}
	r.sum.Drift = map[string]int{}
	files := fs.Args()
	sort.Strings(files)
	done := make(chan error, 1)
	go func() {
		for _, fn := range files {
			if err := r.runFile(fn); err != nil {
				done <- err
				return
			}
		}
		done <- nil
	}()
	// watchdog: if no API call finishes for `watchdog`, the call in flight is reported as a hang
	last, lastAt := int64(-1), time.Now()
wait:
	for {
		select {
		case err := <-done:
			if err != nil {
				fmt.Fprintln(os.Stderr, "replay:", err)
				return 2
			}
			break wait
		case <-time.After(500 * time.Millisecond):
			p := atomic.LoadInt64(&r.progress)
			if p != last {
				last, lastAt = p, time.Now()
			} else if time.Since(lastAt) > watchdog {
				if v, ok := r.cur.Load().(violation); ok {
					r.sum.Counts[v.Cat]++
					r.sum.Violations = append(r.sum.Violations, v)
				}
				r.sum.Incomplete = true
				break wait
			}
		}
	}
	r.sum.WallS = time.Since(start).Seconds()
	b, _ := json.MarshalIndent(r.sum, "", " ")
	if *out != "" {
		if err := os.WriteFile(*out, b, 0o644); err != nil {
			fmt.Fprintln(os.Stderr, err)
			return 2
		}
	} else {
		fmt.Println(string(b))
	}
	return 0
}

func (r *replayer) runFile(fn string) error {
	f, err := os.Open(fn)
	if err != nil {
		return err
	}
	defer f.Close()
	sc := bufio.NewScanner(f)
	sc.Buffer(make([]byte, 1<<26), 1<<26)
	var docs, docsTagged []interface{}
	fam := ""
	for sc.Scan() {
		line := sc.Bytes()
		if len(strings.TrimSpace(string(line))) == 0 {
			continue
		}
		var c caseRec
		if err := json.Unmarshal(line, &c); err != nil {
			return fmt.Errorf("%s: %v", fn, err)
		}
		switch c.K {
		case "docs":
			fam = c.Fam
			docsTagged = c.Docs
			docs = make([]interface{}, len(c.Docs))
			for i, d := range c.Docs {
				docs[i] = decodeValue(d)
			}
		case "case":
			r.runCase(fam, &c, docs, docsTagged)
		}
	}
	return sc.Err()
}
