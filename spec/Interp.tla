------------------------------- MODULE Interp -------------------------------
(* The tree-walking interpreter as an explicit state machine: one frame per active Execute call, one step
   per Execute entry or return, mirroring interpreter.go case by case (evaluation order of operands,
   short-circuiting of || and &&, per-element evaluation of projection right-hand sides and filter
   conditions, arguments left to right).  Built-ins are applied atomically (Eval!CallFn).

   Checked against the relational big-step semantics (MC_Interp):
     ResultAllowed   every terminal result of the machine is in Outcomes(e0, d0)
     NeverStuck      a non-terminal state always has a step (the interpreter is total)
     Bounded         the stack depth is bounded by the nesting of the expression (termination measure)
     ShortCircuit    the right operand of || / && is entered only when the left operand does not decide
   `trail` records the kinds of the nodes entered, in order: the Execute-entry sequence that the
   implementation's verifEnter hook produces. *)
EXTENDS EvalTrace

CONSTANTS Exprs, Docs0

None == <<"none">>
Frame(n, c) == [n |-> n, c |-> c, ph |-> 0, acc |-> <<>>, xs |-> <<>>, i |-> 0]

VARIABLES e0, d0, stack, ret, trail
vars == <<e0, d0, stack, ret, trail>>

Init == /\ e0 \in Exprs /\ d0 \in Docs0
        /\ stack = <<Frame(e0, d0)>> /\ ret = None /\ trail = <<e0[1]>>

Top == stack[Len(stack)]
Replace(f) == [stack EXCEPT ![Len(stack)] = f]
Push(f, n, c) == /\ stack' = Append(Replace(f), Frame(n, c)) /\ ret' = None /\ trail' = Append(trail, n[1])
Pop(o) == /\ stack' = SubSeq(stack, 1, Len(stack) - 1) /\ ret' = o /\ UNCHANGED trail
IsErrR == ret # None /\ ret[1] # "ok"
V == ret[2]

Leaf(k) == k \in {"Field", "Index", "Identity", "CurrentNode", "Literal", "ExpRef", "Slice"}
StepLeaf == LET f == Top IN /\ Leaf(f.n[1]) /\ \E o \in Outcomes(f.n, f.c) : Pop(o)

(* Subexpression / IndexExpression / Pipe: left, then right against left's value *)
StepSeq == LET f == Top k == f.n[1] IN
  /\ k \in {"Subexpression", "IndexExpression", "Pipe"}
  /\ CASE f.ph = 0 -> Push([f EXCEPT !.ph = 1], f.n[2], f.c)
       [] f.ph = 1 -> IF IsErrR THEN Pop(Up(ret)) ELSE Push([f EXCEPT !.ph = 2], f.n[3], V)
       [] f.ph = 2 -> Pop(ret)

StepOrAnd == LET f == Top k == f.n[1] IN
  /\ k \in {"OrExpression", "AndExpression"}
  /\ CASE f.ph = 0 -> Push([f EXCEPT !.ph = 1], f.n[2], f.c)
       [] f.ph = 1 -> IF IsErrR THEN Pop(Up(ret))
                      ELSE IF (k = "OrExpression") = IsFalse(V) THEN Push([f EXCEPT !.ph = 2], f.n[3], f.c)
                      ELSE Pop(ret)
       [] f.ph = 2 -> Pop(ret)

StepNot == LET f == Top IN
  /\ f.n[1] = "NotExpression"
  /\ CASE f.ph = 0 -> Push([f EXCEPT !.ph = 1], f.n[2], f.c)
       [] f.ph = 1 -> IF IsErrR THEN Pop(Up(ret)) ELSE Pop(Ok(Bool(IsFalse(V))))

StepCmp == LET f == Top IN
  /\ f.n[1] = "Comparator"
  /\ CASE f.ph = 0 -> Push([f EXCEPT !.ph = 1], f.n[3], f.c)
       [] f.ph = 1 -> IF IsErrR THEN Pop(Up(ret)) ELSE Push([f EXCEPT !.ph = 2, !.acc = <<V>>], f.n[4], f.c)
       [] f.ph = 2 -> IF IsErrR THEN Pop(Up(ret)) ELSE \E o \in Compare(f.n[2], f.acc[1], V) : Pop(o)

(* children evaluated in order against the same current node: multi-select list / hash, function arguments *)
KidsOf(n) == CASE n[1] = "MultiSelectList" -> n[2]
               [] n[1] = "MultiSelectHash" -> n[2]        \* the KeyValPair nodes, each of which enters its expression
               [] n[1] = "FunctionExpression" -> n[3]
Finish(n, vals) == CASE n[1] = "MultiSelectList" -> OkS(Arr(vals))
                     [] n[1] = "MultiSelectHash" -> OkS(Obj(LastWins([j \in 1..Len(n[2]) |-> n[2][j][2]], vals)))
                     [] n[1] = "FunctionExpression" -> CallFn(FnOf(n[2]), vals)
StepEach == LET f == Top k == f.n[1] ks == KidsOf(f.n) IN
  /\ k \in {"MultiSelectList", "MultiSelectHash", "FunctionExpression"}
  /\ IF f.ph = 0
     THEN IF k # "FunctionExpression" /\ f.c[1] = "null" THEN Pop(Ok(Null))
          ELSE IF ks = <<>> THEN \E o \in Finish(f.n, <<>>) : Pop(o)
          ELSE Push([f EXCEPT !.ph = 1, !.i = 1], ks[1], f.c)
     ELSE IF IsErrR THEN Pop(Up(ret))
          ELSE LET acc2 == Append(f.acc, V) IN
               IF f.i < Len(ks) THEN Push([f EXCEPT !.acc = acc2, !.i = f.i + 1], ks[f.i + 1], f.c)
               ELSE \E o \in Finish(f.n, acc2) : Pop(o)

StepFlatten == LET f == Top IN
  /\ f.n[1] = "Flatten"
  /\ CASE f.ph = 0 -> Push([f EXCEPT !.ph = 1], f.n[2], f.c)
       [] f.ph = 1 -> IF IsErrR THEN Pop(Up(ret)) ELSE Pop(Ok(IF V[1] = "arr" THEN Arr(FlattenOnce(V[2])) ELSE Null))

(* list projection and object-value projection: left, then the right-hand side once per element *)
StepProj == LET f == Top k == f.n[1] IN
  /\ k \in {"Projection", "ValueProjection"}
  /\ CASE f.ph = 0 -> Push([f EXCEPT !.ph = 1], f.n[2], f.c)
       [] f.ph = 1 ->
            IF IsErrR THEN Pop(Up(ret))
            ELSE IF V[1] # (IF k = "Projection" THEN "arr" ELSE "obj") THEN Pop(Ok(Null))
            ELSE \E xs \in (IF k = "Projection" THEN {V[2]} ELSE {[j \in 1..Len(p) |-> p[j][2]] : p \in Perms(V[2])}) :
                   IF xs = <<>> THEN Pop(Ok(Arr(<<>>)))
                   ELSE Push([f EXCEPT !.ph = 2, !.xs = xs, !.i = 1], f.n[3], xs[1])
       [] f.ph = 2 ->
            IF IsErrR THEN Pop(Up(ret))
            ELSE LET acc2 == IF V[1] = "null" THEN f.acc ELSE Append(f.acc, V) IN
                 IF f.i < Len(f.xs) THEN Push([f EXCEPT !.acc = acc2, !.i = f.i + 1], f.n[3], f.xs[f.i + 1])
                 ELSE Pop(Ok(Arr(acc2)))

(* filter projection: left, then per element the condition and, if true-like, the right-hand side *)
StepFilter == LET f == Top IN
  /\ f.n[1] = "FilterProjection"
  /\ CASE f.ph = 0 -> Push([f EXCEPT !.ph = 1], f.n[2], f.c)
       [] f.ph = 1 ->
            IF IsErrR THEN Pop(Up(ret))
            ELSE IF V[1] # "arr" THEN Pop(Ok(Null))
            ELSE IF V[2] = <<>> THEN Pop(Ok(Arr(<<>>)))
            ELSE Push([f EXCEPT !.ph = 2, !.xs = V[2], !.i = 1], f.n[4], V[2][1])
       [] f.ph = 2 ->
            IF IsErrR THEN Pop(Up(ret))
            ELSE IF ~IsFalse(V) THEN Push([f EXCEPT !.ph = 3], f.n[3], f.xs[f.i])
            ELSE IF f.i < Len(f.xs) THEN Push([f EXCEPT !.i = f.i + 1], f.n[4], f.xs[f.i + 1])
            ELSE Pop(Ok(Arr(f.acc)))
       [] f.ph = 3 ->
            IF IsErrR THEN Pop(Up(ret))
            ELSE LET acc2 == IF V[1] = "null" THEN f.acc ELSE Append(f.acc, V) IN
                 IF f.i < Len(f.xs) THEN Push([f EXCEPT !.ph = 2, !.acc = acc2, !.i = f.i + 1], f.n[4], f.xs[f.i + 1])
                 ELSE Pop(Ok(Arr(acc2)))

StepKV == LET f == Top IN
  /\ f.n[1] = "KeyValPair"
  /\ CASE f.ph = 0 -> Push([f EXCEPT !.ph = 1], f.n[3], f.c) [] f.ph = 1 -> Pop(ret)

Next == /\ stack # <<>>
        /\ (StepLeaf \/ StepSeq \/ StepOrAnd \/ StepNot \/ StepCmp \/ StepEach \/ StepFlatten \/ StepProj \/ StepFilter \/ StepKV)
        /\ UNCHANGED <<e0, d0>>
Spec == Init /\ [][Next]_vars

Done == stack = <<>>
ResultAllowed == Done => ret \in Outcomes(e0, d0)
NeverStuck == ~Done => ENABLED Next
Bounded == Len(stack) <= Depth(e0) + 1
(* the machine's entry sequence is a trail of the instrumented semantics (up to the open tail of by-expression built-ins) *)
TrailOK == Done => \E p \in OutT(e0, d0) :
              /\ p[1] = ret
              /\ IF Open(p[2]) THEN LET n == (CHOOSE i \in 1..Len(p[2]) : p[2][i] = "*" /\ \A j \in 1..(i - 1) : p[2][j] # "*") - 1 IN
                                    Len(trail) >= n /\ SubSeq(trail, 1, n) = SubSeq(p[2], 1, n)
                 ELSE p[2] = trail
(* C07: the right operand of || / && is entered only when the left operand does not decide the result *)
ShortCircuit ==
  \A i \in 1..Len(stack) :
    LET f == stack[i] IN
    (f.n[1] \in {"OrExpression", "AndExpression"} /\ f.ph = 2) =>
        \E l \in OkVals(Outcomes(f.n[2], f.c)) : (f.n[1] = "OrExpression") = IsFalse(l)
=============================================================================
