----------------------------- MODULE Gen_Eval -----------------------------
(* Generator for the families decided by the evaluator oracle Outcomes (C01, C02, C07, C09, C10,
   C11, C15, C16): enumerates the family's bounded universe of ASTs, spells each one as source text
   (Unparse / Render, several spellings), evaluates it on every document of the family with the
   specification and writes, per expression, the source texts and the allowed outcome set per
   document.  The Go harness replays the texts through the real Compile / Search.

   The universes are defined in Families.tla (index space 0 .. total-1).  This process handles
   index i iff i % NShards = Shard, thinned by the seeded strides Stride (levels 1-2) and Stride3
   (level 3), see Families!MineSeq. *)
EXTENDS Families, Json

CONSTANTS Shard, NShards, OutFile, Seed, Stride, Stride3

MineIdx(g) == MineSeq(g, Shard, NShards, Stride, Stride3, Seed)

CaseOf(g, i, e) == LET toks == UnparseSt(e, StMin) IN
  IF IsBad(toks) THEN [k |-> "skip", id |-> i]
  ELSE [k |-> "case", id |-> i, n |-> Size(e),
        srcs |-> [s \in 1..Len(Styles) |-> Render(UnparseSt(e, Styles[s]), WsOf(s))],
        allowed |-> [d \in 1..Len(g.docs) |-> Outcomes(e, g.docs[d])]]
Header(g) == [k |-> "docs", fam |-> Family, total |-> g.total, docs |-> g.docs]
OutOf(g, mine) == <<Header(g)>> \o SelectSeq([m \in 1..Len(mine) |-> CaseOf(g, mine[m], ExprAt(g, mine[m]))], LAMBDA r : r.k = "case")

ASSUME LET g == Ctx
           mine == MineIdx(g)
           out == OutOf(g, mine)
       IN /\ PrintT(<<"GEN", Family, "total", g.total, "docs", Len(g.docs), "mine", Len(mine), "emitted", Len(out) - 1>>)
          /\ ndJsonSerialize(OutFile, out)
VARIABLE x
Init == x = 0
Next == x' = x
=============================================================================
