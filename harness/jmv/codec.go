package main

// Codec between the TLA+ tagged-tuple encoding (as written by the Json community module) and Go
// values, and the comparator that decides "observed outcome ∈ allowed set". This file contains no
// JMESPath semantics: the allowed sets are computed by TLC from the specification.

import (
	"encoding/json"
	"fmt"
	"math"
	"math/big"
	"sort"
	"strings"
	"unicode/utf8"
)

// cpsToString turns a sequence of code points into bytes. A negative element -b stands for the raw
// byte b (used to build invalid UTF-8).
func cpsToString(v interface{}) string {
	var sb strings.Builder
	for _, c := range v.([]interface{}) {
		n := int(c.(float64))
		if n < 0 {
			sb.WriteByte(byte(-n))
		} else {
			var buf [4]byte
			k := utf8.EncodeRune(buf[:], rune(n))
			sb.Write(buf[:k])
		}
	}
	return sb.String()
}

func decodeRune(s string) (rune, int) { return utf8.DecodeRuneInString(s) }

func stringToCps(s string) []interface{} {
	out := []interface{}{}
	for _, r := range s {
		out = append(out, int(r))
	}
	return out
}

// decodeValue: tagged value -> Go JSON value (objects may be a list of [key, value] pairs in any order).
func decodeValue(t interface{}) interface{} {
	a := t.([]interface{})
	switch a[0].(string) {
	case "null":
		return nil
	case "bool":
		return a[1].(bool)
	case "num":
		if a[2].(float64) == 0 {
			return bigTable[int(a[1].(float64))-1]
		}
		return a[1].(float64) / a[2].(float64)
	case "str":
		return cpsToString(a[1])
	case "arr":
		xs := a[1].([]interface{})
		// two elements of spare capacity: a write beyond len() is a write into the caller's memory and is
		// visible to the capacity-aware snapshot comparison (C06)
		out := make([]interface{}, 0, len(xs)+2)
		for _, x := range xs {
			out = append(out, decodeValue(x))
		}
		return out
	case "obj":
		out := map[string]interface{}{}
		for _, kv := range a[1].([]interface{}) {
			p := kv.([]interface{})
			out[cpsToString(p[0])] = decodeValue(p[1])
		}
		return out
	}
	panic("decodeValue: unknown tag " + a[0].(string))
}

// whole numbers beyond int64, BigDigits of JSONValue.tla
var bigTable = []float64{1e19, 18446744073709551616, 1e25}

// snapRational maps a float to a small rational p/q (continued fractions, relative tolerance 1e-12,
// denominator <= 10^6) so that TLC can compare exact values; ok=false when it does not snap.
func snapRational(f float64) (p, q int64, ok bool) {
	if math.IsNaN(f) || math.IsInf(f, 0) || math.Abs(f) > 1e9 {
		return 0, 0, false
	}
	if f == math.Trunc(f) {
		return int64(f), 1, true
	}
	x := f
	var h0, h1, k0, k1 int64 = 0, 1, 1, 0
	for i := 0; i < 40; i++ {
		a := math.Floor(x)
		h2 := int64(a)*h1 + h0
		k2 := int64(a)*k1 + k0
		if k2 > 1000000 || k2 <= 0 {
			break
		}
		h0, h1, k0, k1 = h1, h2, k1, k2
		approx := float64(h1) / float64(k1)
		if math.Abs(approx-f) <= 1e-12*math.Max(1, math.Abs(f)) {
			if float64(h1)/float64(k1) == f || math.Abs(approx-f) <= 1e-12*math.Max(1, math.Abs(f)) {
				return h1, k1, true
			}
		}
		frac := x - a
		if frac == 0 {
			break
		}
		x = 1 / frac
	}
	return 0, 0, false
}

// encodeObserved: Go value as returned by the library -> tagged value for traces. Anything that is
// not JSON data is encoded with a tag the specification does not know, so it can never be allowed.
func encodeObserved(v interface{}) interface{} {
	switch t := v.(type) {
	case nil:
		return []interface{}{"null"}
	case bool:
		return []interface{}{"bool", t}
	case float64:
		if p, q, ok := snapRational(t); ok {
			return []interface{}{"num", p, q}
		}
		return []interface{}{"numfloat", fmt.Sprint(t)}
	case string:
		if !utf8.ValidString(t) {
			return []interface{}{"badstr", fmt.Sprintf("%q", t)}
		}
		return []interface{}{"str", stringToCps(t)}
	case []interface{}:
		if t == nil {
			return []interface{}{"nilslice"}
		}
		xs := []interface{}{}
		for _, x := range t {
			xs = append(xs, encodeObserved(x))
		}
		return []interface{}{"arr", xs}
	case map[string]interface{}:
		if t == nil {
			return []interface{}{"nilmap"}
		}
		keys := []string{}
		for k := range t {
			keys = append(keys, k)
		}
		sort.Strings(keys)
		kvs := []interface{}{}
		for _, k := range keys {
			kvs = append(kvs, []interface{}{stringToCps(k), encodeObserved(t[k])})
		}
		return []interface{}{"obj", kvs}
	}
	return []interface{}{"gotype", fmt.Sprintf("%T", v)}
}

// encodeValue: exact encoding of a JSON document (numbers as exact decimal rationals).
func encodeValue(v interface{}) interface{} {
	if f, ok := v.(float64); ok {
		r := new(big.Rat)
		if _, ok := r.SetString(fmt.Sprintf("%v", f)); ok && r.Num().IsInt64() && r.Denom().IsInt64() &&
			r.Num().Int64() < 1<<30 && r.Num().Int64() > -(1<<30) && r.Denom().Int64() < 1<<30 {
			return []interface{}{"num", r.Num().Int64(), r.Denom().Int64()}
		}
		return []interface{}{"numfloat", fmt.Sprint(f)}
	}
	switch t := v.(type) {
	case []interface{}:
		xs := []interface{}{}
		for _, x := range t {
			xs = append(xs, encodeValue(x))
		}
		return []interface{}{"arr", xs}
	case map[string]interface{}:
		keys := []string{}
		for k := range t {
			keys = append(keys, k)
		}
		sort.Strings(keys)
		kvs := []interface{}{}
		for _, k := range keys {
			kvs = append(kvs, []interface{}{stringToCps(k), encodeValue(t[k])})
		}
		return []interface{}{"obj", kvs}
	}
	return encodeObserved(v)
}

// jsonClosed reports whether v is JSON data in the sense of C16: nil, bool, finite float64, string,
// non-nil []interface{}, non-nil map[string]interface{}, recursively. The string names the offender.
func jsonClosed(v interface{}) (bool, string) {
	switch t := v.(type) {
	case nil, bool, string:
		return true, ""
	case float64:
		if math.IsNaN(t) || math.IsInf(t, 0) {
			return false, fmt.Sprint("non-finite number ", t)
		}
		return true, ""
	case []interface{}:
		if t == nil {
			return false, "nil slice"
		}
		for _, x := range t {
			if ok, why := jsonClosed(x); !ok {
				return false, why
			}
		}
		return true, ""
	case map[string]interface{}:
		if t == nil {
			return false, "nil map"
		}
		for _, x := range t {
			if ok, why := jsonClosed(x); !ok {
				return false, why
			}
		}
		return true, ""
	}
	return false, fmt.Sprintf("Go value of type %T", v)
}

// matchValue: does the observed Go value match the allowed tagged value?
func matchValue(obs interface{}, allowed interface{}, inexact bool) bool {
	a := allowed.([]interface{})
	switch a[0].(string) {
	case "null":
		return obs == nil
	case "bool":
		b, ok := obs.(bool)
		return ok && b == a[1].(bool)
	case "num":
		f, ok := obs.(float64)
		if !ok || math.IsNaN(f) || math.IsInf(f, 0) {
			return false
		}
		want := a[1].(float64) / a[2].(float64)
		if a[2].(float64) == 0 {
			want = bigTable[int(a[1].(float64))-1]
		}
		if f == want {
			return true
		}
		return inexact && math.Abs(f-want) <= 1e-12*math.Max(1, math.Abs(want))
	case "str":
		s, ok := obs.(string)
		return ok && s == cpsToString(a[1])
	case "jsontext":
		// any text that decodes to the argument
		s, ok := obs.(string)
		if !ok {
			return false
		}
		var dec interface{}
		if json.Unmarshal([]byte(s), &dec) != nil {
			return false
		}
		return matchValue(dec, a[1], inexact)
	case "arr":
		xs, ok := obs.([]interface{})
		ys := a[1].([]interface{})
		if !ok || xs == nil || len(xs) != len(ys) {
			return false
		}
		for i := range xs {
			if !matchValue(xs[i], ys[i], inexact) {
				return false
			}
		}
		return true
	case "obj":
		m, ok := obs.(map[string]interface{})
		kvs := a[1].([]interface{})
		if !ok || m == nil || len(m) != len(kvs) {
			return false
		}
		for _, kv := range kvs {
			p := kv.([]interface{})
			v, present := m[cpsToString(p[0])]
			if !present || !matchValue(v, p[1], inexact) {
				return false
			}
		}
		return true
	case "expref":
		// the library's expression-reference object (not JSON data; only outside C16's precondition)
		return strings.HasSuffix(fmt.Sprintf("%T", obs), ".expRef")
	}
	return false // nonfinite, unknown tags: never a result
}

// Observation of one call of the real API.
type Obs struct {
	Kind    string      // "ok" | "err" | "panic" | "timeout"
	Value   interface{} // when ok
	Err     string
	Syntax  bool // the error is a jmespath.SyntaxError
	Compile bool // the error (or panic) happened while compiling
}

func (o Obs) String() string {
	switch o.Kind {
	case "ok":
		b, err := json.Marshal(o.Value)
		if err != nil {
			return fmt.Sprintf("ok %#v", o.Value)
		}
		return "ok " + string(b)
	case "err":
		return "err " + o.Err
	}
	return o.Kind + " " + o.Err
}

// matchOutcome: observed ∈ allowed, where allowed is the list of outcomes TLC emitted.
// Returns (member, unspecified).
func matchOutcome(o Obs, allowed []interface{}, inexact bool) (bool, bool) {
	member := false
	for _, x := range allowed {
		a := x.([]interface{})
		switch a[0].(string) {
		case "unspec":
			if o.Kind == "ok" || o.Kind == "err" {
				return true, true
			}
		case "err":
			member = member || o.Kind == "err"
		case "numornull":
			if o.Kind == "ok" {
				if o.Value == nil {
					member = true
				} else if f, ok := o.Value.(float64); ok && !math.IsNaN(f) && !math.IsInf(f, 0) {
					member = true
				}
			}
		case "ok":
			member = member || (o.Kind == "ok" && matchValue(o.Value, a[1], inexact))
		}
	}
	return member, false
}

// snapshotCap copies a document including the hidden capacity of every slice (elements between len and cap),
// so that a write into spare capacity is seen by sameWithCap.
func snapshotCap(v interface{}) interface{} {
	switch t := v.(type) {
	case []interface{}:
		full := t[:cap(t)]
		out := make([]interface{}, len(full)+1)
		out[0] = float64(len(t))
		for i, x := range full {
			out[i+1] = snapshotCap(x)
		}
		return out
	case map[string]interface{}:
		out := make(map[string]interface{}, len(t))
		for k, x := range t {
			out[k] = snapshotCap(x)
		}
		return out
	}
	return v
}

func deepCopy(v interface{}) interface{} {
	switch t := v.(type) {
	case []interface{}:
		out := make([]interface{}, len(t), cap(t))
		for i, x := range t {
			out[i] = deepCopy(x)
		}
		return out
	case map[string]interface{}:
		out := make(map[string]interface{}, len(t))
		for k, x := range t {
			out[k] = deepCopy(x)
		}
		return out
	}
	return v
}
