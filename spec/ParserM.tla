------------------------------ MODULE ParserM ------------------------------
(* The Pratt parser of parser.go as an explicit state machine: one frame per active call of
   parseExpression / nud / led / parseProjectionRHS / parseDotRHS / parseMultiSelectList /
   parseMultiSelectHash / parseFilter / the argument loop of a function call, one step per call or return.
   (parseSliceExpression and the index / slice arm of "[" do not recurse; they are applied atomically through
   Parser!ParseIndex.)  This is the grammar-conforming machine: the deviation switches of Parser.tla are off.
   Negative control: with "LedNoAdvance" in Dev the led loop does not consume its token (Refines / Progress / Bounded fail).

   `trail` records, in order, the nud and led steps with the type of the token that is consumed and its index:
   the sequence that the implementation's verifStep hook emits (kind, token type).

   Checked by MC_ParserM on every token string up to a bound:
     Refines       the machine's result is Parser!Parse of the same tokens (two forms of one specification)
     IdxInRange       no frame holds an index outside the token sequence (the parser never reads past eof; C05)
     Progress      every nud / led step consumes a token at a strictly larger index than the one before: the
                   number of such steps is at most the number of tokens (termination measure; C05)
     Bounded       the stack depth is bounded by a linear function of the number of tokens
     Terminates    (temporal) every started parse reaches Done
   and bound to the code by Trace_Parse: the nud / led sequence recorded from the real parser while it compiles
   an expression equals the trail of the machine on the token stream of the specification's lexer. *)
EXTENDS Parser

VARIABLES toks, stack, ret, trail
mvars == <<toks, stack, ret, trail>>

None == <<"none">>
Fr(fn, i) == [fn |-> fn, ph |-> 0, i |-> i, bp |-> 0, t |-> "", left |-> <<>>, acc |-> <<>>, k |-> <<>>]
ExprF(i, bp) == [Fr("expr", i) EXCEPT !.bp = bp]
NudF(i) == Fr("nud", i)                                    \* i: index of the nud token
LedF(t, left, i) == [Fr("led", i) EXCEPT !.t = t, !.left = left]   \* i: index after the led token
ProjRHSF(i, bp) == [Fr("projrhs", i) EXCEPT !.bp = bp]
DotRHSF(i, bp) == [Fr("dotrhs", i) EXCEPT !.bp = bp]
MSLF(i) == Fr("msl", i)
MSHF(i) == Fr("msh", i)
ArgsF(i) == Fr("args", i)
FilterF(left, i) == [Fr("filter", i) EXCEPT !.left = left]

Top == stack[Len(stack)]
Replace(f) == [stack EXCEPT ![Len(stack)] = f]
Push(f, g) == /\ stack' = Append(Replace(f), g) /\ ret' = None /\ UNCHANGED trail
PushT(f, g, kind, ti) == /\ stack' = Append(Replace(f), g) /\ ret' = None /\ trail' = Append(trail, <<kind, TT(toks, ti), ti>>)
Pop(r) == /\ stack' = SubSeq(stack, 1, Len(stack) - 1) /\ ret' = r /\ UNCHANGED trail
Bad == ret[1] # "ok"
Tk(i) == TT(toks, i)

(* what a nud / led arm does with the result of the one call it makes *)
Finish(k, r) ==
  CASE k[1] = "pass" -> r
    [] k[1] = "VProj" -> POk(VProj(k[2], r[2]), r[3])
    [] k[1] = "Proj" -> POk(Proj(k[2], r[2]), r[3])
    [] k[1] = "Sub" -> POk(Sub(k[2], r[2]), r[3])
    [] k[1] = "Ref" -> POk(Ref(r[2]), r[3])
    [] k[1] = "Not" -> POk(Not(r[2]), r[3])
    [] k[1] = "Paren" -> IF Tk(r[3]) = "rparen" THEN POk(r[2], r[3] + 1) ELSE PErr(r[3])
    [] k[1] = "Bin" -> POk(<<k[2], k[3], r[2]>>, r[3])
    [] k[1] = "Cmp" -> POk(Cmp(k[2], k[3], r[2]), r[3])
    [] k[1] = "Fn" -> POk(Fn(k[2], r[2]), r[3])
Call(f, k, g) == Push([f EXCEPT !.ph = 1, !.k = k], g)

(* parseExpression(bp): nud of the token at i, then led steps while bp < BP(current) *)
StepExpr == LET f == Top IN
  /\ f.fn = "expr"
  /\ IF f.ph = 0 THEN PushT([f EXCEPT !.ph = 1], NudF(f.i), "nud", f.i)
     ELSE IF Bad THEN Pop(ret)
     ELSE LET left == ret[2] j == ret[3] IN
          IF f.bp < BP(Tk(j)) THEN PushT(f, LedF(Tk(j), left, IF "LedNoAdvance" \in Dev THEN j ELSE j + 1), "led", j) ELSE Pop(POk(left, j))

(* the "[" arm shared by nud (left = Identity) and led *)
Bracket(f, left, j) ==
  IF Tk(j) \in {"number", "colon"}
  THEN LET r == ParseIndex(toks, j) IN
       IF ~PIsOk(r) THEN Pop(r)
       ELSE IF r[2][1] = "Slice" THEN Call(f, <<"Proj", IdxE(left, r[2])>>, ProjRHSF(r[3], BP("star")))
       ELSE Pop(POk(IdxE(left, r[2]), r[3]))
  ELSE IF Tk(j) = "star" /\ Tk(j + 1) = "rbracket" THEN Call(f, <<"Proj", left>>, ProjRHSF(j + 2, BP("star")))
  ELSE IF f.fn = "nud" THEN Call(f, <<"pass">>, MSLF(j))
  ELSE Pop(PErr(IF Tk(j) = "star" THEN j + 1 ELSE j))

StepNud == LET f == Top t == Tk(f.i) j == f.i + 1 IN
  /\ f.fn = "nud"
  /\ IF f.ph = 1 THEN (IF Bad THEN Pop(ret) ELSE Pop(Finish(f.k, ret)))
     ELSE CASE t = "star" -> IF Tk(j) = "rbracket" THEN Pop(POk(VProj(Identity, Identity), j))
                             ELSE Call(f, <<"VProj", Identity>>, ProjRHSF(j, BP("star")))
            [] t = "filter" -> Call(f, <<"pass">>, FilterF(Identity, j))
            [] t = "lbrace" -> Call(f, <<"pass">>, MSHF(j))
            [] t = "flatten" -> Call(f, <<"Proj", Flat(Identity)>>, ProjRHSF(j, BP("flatten")))
            [] t = "lbracket" -> Bracket(f, Identity, j)
            [] t = "expref" -> Call(f, <<"Ref">>, ExprF(j, BP("expref")))
            [] t = "not" -> Call(f, <<"Not">>, ExprF(j, BP("not")))
            [] t = "lparen" -> Call(f, <<"Paren">>, ExprF(j, 0))
            [] OTHER -> Pop(Nud(toks, f.i))        \* literals, identifiers, @, and tokens without a nud (an error)

StepLed == LET f == Top t == f.t i == f.i left == f.left IN
  /\ f.fn = "led"
  /\ IF f.ph = 1 THEN (IF Bad THEN Pop(ret) ELSE Pop(Finish(f.k, ret)))
     ELSE CASE t = "dot" -> IF Tk(i) # "star" THEN Call(f, <<"Sub", left>>, DotRHSF(i, BP("dot")))
                            ELSE Call(f, <<"VProj", left>>, ProjRHSF(i + 1, BP("star")))
            [] t \in {"pipe", "or", "and"} ->
                 Call(f, <<"Bin", (CASE t = "pipe" -> "Pipe" [] t = "or" -> "OrExpression" [] t = "and" -> "AndExpression"), left>>, ExprF(i, BP(t)))
            [] t = "lparen" ->
                 IF i < 3 \/ Tk(i - 2) # "uid" \/ left[1] # "Field" THEN Pop(PErr(i - 1))
                 ELSE IF Tk(i) = "rparen" THEN Pop(POk(Fn(left[2], <<>>), i + 1))
                 ELSE Call(f, <<"Fn", left[2]>>, ArgsF(i))
            [] t = "filter" -> Call(f, <<"pass">>, FilterF(left, i))
            [] t = "flatten" -> Call(f, <<"Proj", Flat(left)>>, ProjRHSF(i, BP("flatten")))
            [] t \in {"eq", "ne", "gt", "gte", "lt", "lte"} -> Call(f, <<"Cmp", t, left>>, ExprF(i, BP(t)))
            [] t = "lbracket" -> Bracket(f, left, i)
            [] OTHER -> Pop(PErr(i))

(* comma-separated expressions up to a closing token: function arguments and multi-select lists *)
StepList == LET f == Top close == IF f.fn = "args" THEN "rparen" ELSE "rbracket" IN
  /\ f.fn \in {"args", "msl"}
  /\ IF f.ph = 0 THEN Push([f EXCEPT !.ph = 1], ExprF(f.i, 0))
     ELSE IF Bad THEN Pop(ret)
     ELSE LET j == ret[3] acc2 == Append(f.acc, ret[2]) IN
          IF Tk(j) = "comma" THEN (IF f.fn = "args" /\ Tk(j + 1) = "rparen" THEN Pop(PErr(j + 1))    \* the code rejects `f(a, )` before any nud step
                                   ELSE Push([f EXCEPT !.acc = acc2], ExprF(j + 1, 0)))
          ELSE IF Tk(j) = close THEN Pop(POk(IF f.fn = "args" THEN acc2 ELSE MSL(acc2), j + 1))
          ELSE Pop(PErr(j))

(* key ":" expression pairs up to "}" *)
HashPair(f, i, acc) ==
  IF Tk(i) \notin {"uid", "qid"} THEN Pop(PErr(i))
  ELSE IF Tk(i + 1) # "colon" THEN Pop(PErr(i + 1))
  ELSE Push([f EXCEPT !.ph = 1, !.acc = acc, !.k = <<TV(toks, i)>>], ExprF(i + 2, 0))
StepHash == LET f == Top IN
  /\ f.fn = "msh"
  /\ IF f.ph = 0 THEN HashPair(f, f.i, <<>>)
     ELSE IF Bad THEN Pop(ret)
     ELSE LET j == ret[3] acc2 == Append(f.acc, KV(f.k[1], ret[2])) IN
          IF Tk(j) = "comma" THEN HashPair(f, j + 1, acc2)
          ELSE IF Tk(j) = "rbrace" THEN Pop(POk(MSH(acc2), j + 1))
          ELSE Pop(PErr(j))

(* "[?" condition "]" then the projection's right-hand side *)
StepFilter == LET f == Top IN
  /\ f.fn = "filter"
  /\ CASE f.ph = 0 -> Push([f EXCEPT !.ph = 1], ExprF(f.i, 0))
       [] f.ph = 1 -> IF Bad THEN Pop(ret)
                      ELSE LET j == ret[3] IN
                           IF Tk(j) # "rbracket" THEN Pop(PErr(j))
                           ELSE IF Tk(j + 1) = "flatten" THEN Pop(POk(Filt(f.left, Identity, ret[2]), j + 1))
                           ELSE Push([f EXCEPT !.ph = 2, !.k = <<ret[2]>>], ProjRHSF(j + 1, BP("filter")))
       [] f.ph = 2 -> IF Bad THEN Pop(ret) ELSE Pop(POk(Filt(f.left, ret[2], f.k[1]), ret[3]))

StepDotRHS == LET f == Top t == Tk(f.i) IN
  /\ f.fn = "dotrhs"
  /\ IF f.ph = 1 THEN Pop(ret)
     ELSE IF t \in {"qid", "uid", "star"} THEN Push([f EXCEPT !.ph = 1], ExprF(f.i, f.bp))
     ELSE IF t = "lbracket" THEN Push([f EXCEPT !.ph = 1], MSLF(f.i + 1))
     ELSE IF t = "lbrace" THEN Push([f EXCEPT !.ph = 1], MSHF(f.i + 1))
     ELSE Pop(PErr(f.i))

StepProjRHS == LET f == Top t == Tk(f.i) IN
  /\ f.fn = "projrhs"
  /\ IF f.ph = 1 THEN Pop(ret)
     ELSE IF BP(t) < 10 THEN Pop(POk(Identity, f.i))
     ELSE IF t \in {"lbracket", "filter"} THEN Push([f EXCEPT !.ph = 1], ExprF(f.i, f.bp))
     ELSE IF t = "dot" THEN Push([f EXCEPT !.ph = 1], DotRHSF(f.i + 1, f.bp))
     ELSE Pop(PErr(f.i))

Running == stack # <<>>
Step == /\ Running
        /\ (StepExpr \/ StepNud \/ StepLed \/ StepList \/ StepHash \/ StepFilter \/ StepDotRHS \/ StepProjRHS)
        /\ UNCHANGED toks
(* Parser.Parse: parseExpression(0) from the first token; the whole input must be consumed *)
StartOn(ts) == /\ toks' = ts /\ stack' = <<ExprF(1, 0)>> /\ ret' = None /\ trail' = <<>>
Done == stack = <<>> /\ ret # None
Final == IF ret[1] \in {"panic", "other", "unmodelled"} THEN <<ret[1]>>
         ELSE IF ret[1] # "ok" THEN <<"err", ret[3]>>
         ELSE IF Tk(ret[3]) = "eof" THEN <<"ok", ret[2]>> ELSE <<"err", ret[3]>>

Refines == Done => Final = Parse(toks)
IdxInRange == \A n \in 1..Len(stack) : stack[n].i \in 1..Len(toks)
Progress == /\ \A n \in 1..(Len(trail) - 1) : trail[n][3] < trail[n + 1][3]
            /\ \A n \in 1..Len(trail) : trail[n][3] \in 1..Len(toks)
Bounded == Len(stack) <= 3 * Len(toks) + 1
(* the (kind, token type) projection of the trail: what the implementation's hook emits *)
Events == [n \in 1..Len(trail) |-> <<trail[n][1], trail[n][2]>>]
=============================================================================
