package main

// jmv history: replay TLC-generated call histories (C13) on ONE real compiled expression / ONE real
// Parser, and after every call make the same call on freshly created objects and through the one-shot
// Search. Every outcome must be in the set the specification allows; reused, fresh and one-shot must agree.

import (
	"bufio"
	"encoding/json"
	"flag"
	"fmt"
	"os"
	"reflect"
	"strings"

	jmespath "github.com/jmespath/go-jmespath"
)

type histRec struct {
	K       string          `json:"k"`
	ID      int             `json:"id"`
	Src     []interface{}   `json:"src"`
	Seq     []int           `json:"seq"`
	Allowed [][]interface{} `json:"allowed"`
	Docs    []interface{}   `json:"docs"`
	Texts   [][]interface{} `json:"texts"`
	Expect  []string        `json:"expect"`
}

type histViolation struct {
	Cat      string      `json:"cat"`
	Tool     string      `json:"tool"`
	ID       int         `json:"id"`
	Src      string      `json:"src"`
	Step     int         `json:"step"`
	Seq      []int       `json:"seq"`
	Observed string      `json:"observed"`
	Rec      interface{} `json:"rec"`
	Pools    interface{} `json:"pools"`
}

type histSummary struct {
	Histories   int             `json:"cases"`
	Evaluations int             `json:"evaluations"`
	Nontrivial  int             `json:"distinct_nontrivial"`
	Counts      map[string]int  `json:"violation_counts"`
	Violations  []histViolation `json:"violations"`
	Samples     []interface{}   `json:"samples"`
	CanariesIn  int             `json:"canaries_injected"`
	CanariesHit int             `json:"canaries_caught"`
}

func sameObs(a, b Obs) bool {
	if a.Kind != b.Kind {
		return false
	}
	if a.Kind == "ok" {
		return reflect.DeepEqual(a.Value, b.Value)
	}
	return true
}

func cmdHistory(args []string) int {
	fs := flag.NewFlagSet("history", flag.ExitOnError)
	out := fs.String("out", "", "summary output (JSON)")
	canary := fs.Int("canary-every", 0, "corrupt the observation of every N-th call")
	fs.Parse(args)
	sum := histSummary{Counts: map[string]int{}}
	calls := 0
	for _, fn := range fs.Args() {
		f, err := os.Open(fn)
		if err != nil {
			fmt.Fprintln(os.Stderr, err)
			return 2
		}
		sc := bufio.NewScanner(f)
		sc.Buffer(make([]byte, 1<<24), 1<<24)
		var pools histRec
		var poolsRaw interface{}
		for sc.Scan() {
			var r histRec
			if err := json.Unmarshal(sc.Bytes(), &r); err != nil {
				fmt.Fprintln(os.Stderr, fn, err)
				return 2
			}
			var raw interface{}
			json.Unmarshal(sc.Bytes(), &raw)
			add := func(cat string, step int, src, obs string, isCanary bool) {
				if isCanary {
					sum.CanariesHit++
					return
				}
				sum.Counts[cat]++
				if len(sum.Violations) < 200 {
					sum.Violations = append(sum.Violations, histViolation{Cat: cat, Tool: "history", ID: r.ID, Src: src, Step: step, Seq: r.Seq, Observed: obs, Rec: raw, Pools: poolsRaw})
				}
			}
			switch r.K {
			case "pools":
				pools = r
				poolsRaw = raw
			case "hsearch":
				sum.Histories++
				src := cpsToString(r.Src)
				jp, err := jmespath.Compile(src)
				if err != nil {
					add("history-compile", 0, src, err.Error(), false)
					continue
				}
				reads := false
				for step, d := range r.Seq {
					allowed := r.Allowed[d-1]
					mkdoc := func() interface{} { return decodeValue(pools.Docs[d-1]) }
					doc := mkdoc()
					o := direct(func() (interface{}, error) { return jp.Search(doc) })
					calls++
					isCanary := false
					if *canary > 0 && calls%*canary == 0 && o.Kind == "ok" && !strings.Contains(mustJSON(allowed), "unspec") {
						o = Obs{Kind: "ok", Value: "☃canary"}
						isCanary = true
						sum.CanariesIn++
					}
					if m, _ := matchOutcome(o, allowed, false); !m {
						add("history-outcome", step, src, fmt.Sprintf("call %d on document %d of a reused compiled expression: %s", step+1, d, o.String()), isCanary)
						if isCanary {
							continue
						}
					}
					fresh := direct(func() (interface{}, error) {
						j2, err := jmespath.Compile(src)
						if err != nil {
							return nil, err
						}
						return j2.Search(mkdoc())
					})
					one := direct(func() (interface{}, error) { return jmespath.Search(src, mkdoc()) })
					sum.Evaluations += 3
					if m, _ := matchOutcome(fresh, allowed, false); !m {
						add("history-fresh", step, src, "freshly compiled: "+fresh.String(), false)
					}
					if m, _ := matchOutcome(one, allowed, false); !m {
						add("history-oneshot", step, src, "one-shot Search: "+one.String(), false)
					}
					if len(allowed) == 1 && (!sameObs(o, fresh) || !sameObs(o, one)) {
						add("history-differs", step, src, fmt.Sprintf("reused %s / fresh %s / one-shot %s", o.String(), fresh.String(), one.String()), false)
					}
					if !isTrivialAllowed(allowed) {
						reads = true
					}
				}
				if reads && len(r.Seq) >= 2 {
					sum.Nontrivial++
				}
				if len(sum.Samples) < 3 && len(r.Seq) >= 3 && sum.Histories%97 == 0 {
					sum.Samples = append(sum.Samples, map[string]interface{}{"expression": src, "documents_searched_in_order": r.Seq})
				}
			case "hparse":
				sum.Histories++
				p := jmespath.NewParser()
				nonTrivial := false
				for step, t := range r.Seq {
					text := cpsToString(pools.Texts[t-1])
					var ast, fast jmespath.ASTNode
					o := direct(func() (interface{}, error) { var err error; ast, err = p.Parse(text); return nil, err })
					fo := direct(func() (interface{}, error) {
						var err error
						fast, err = jmespath.NewParser().Parse(text)
						return nil, err
					})
					sum.Evaluations += 2
					if o.Kind == "panic" || fo.Kind == "panic" || o.Kind != fo.Kind {
						add("parser-reuse", step, text, fmt.Sprintf("reused parser: %s / fresh parser: %s", o.String(), fo.String()), false)
					} else if o.Kind == "ok" && !reflect.DeepEqual(ast, fast) {
						add("parser-reuse", step, text, "reused parser returned a different AST than a fresh parser", false)
					}
					want := pools.Expect[t-1]
					if (want == "ok" && o.Kind != "ok") || (want == "err" && o.Kind != "err") {
						add("parser-expect", step, text, fmt.Sprintf("specification expects %s, reused parser: %s", want, o.String()), false)
					}
					if step > 0 {
						nonTrivial = true
					}
				}
				if nonTrivial {
					sum.Nontrivial++
				}
				if len(sum.Samples) < 5 && len(r.Seq) >= 3 && sum.Histories%101 == 0 {
					ts := []string{}
					for _, t := range r.Seq {
						ts = append(ts, cpsToString(pools.Texts[t-1]))
					}
					sum.Samples = append(sum.Samples, map[string]interface{}{"parser_reused_for": ts})
				}
			}
		}
		f.Close()
	}
	b, _ := json.MarshalIndent(sum, "", " ")
	if *out != "" {
		os.WriteFile(*out, b, 0o644)
	} else {
		fmt.Println(string(b))
	}
	return 0
}
