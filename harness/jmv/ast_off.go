//go:build !verif

package main

import (
	jmespath "github.com/jmespath/go-jmespath"
)

func realAST(jp *jmespath.JMESPath) interface{} { return []interface{}{} }

func realTokens(text string) interface{} { return []interface{}{} }

func nodeAST(n jmespath.ASTNode) interface{} { return []interface{}{} }
